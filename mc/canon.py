"""Canonical forms of implementation objects, hidden state included (used ONLY to deduplicate states
and to report coverage -- never to decide a property).

Soundness of the deduplication: a RaggedArray's behaviour depends only on its buffer (dtype, bytes,
layout, and which in-scope buffers it shares memory with), its shape object (class, starts/lengths
or codes, steps, the ad-hoc `empty_removed` attribute, whether the same shape object is shared) and
the fields is_contigous, _size, _safe_mode.  Exactly these are hashed; two states with equal
canonical forms are isomorphic object graphs over equal numpy data and have identical futures.
If an attribute is missing (refactored tree) the canonical form falls back to the public
observation, which is coarser exploration but the same verdicts."""
import numpy as np

FALLBACKS = 0


def _buf(x):
    for name in ("_RaggedBase__data", "_data", "__data"):
        if hasattr(x, name):
            return getattr(x, name)
    return None


def _arr(a):
    a = np.asarray(a)
    return (a.dtype.str, a.shape, a.tobytes())


def _generic(v, depth=0):
    """canonical form of an attribute value the explorer knows nothing about"""
    if isinstance(v, np.ndarray):
        return ("nd",) + _arr(v)
    if isinstance(v, (bool, int, float, str, bytes, type(None), np.generic)):
        return repr(v)
    if isinstance(v, dict):
        return ("dict", tuple(sorted((repr(k), _generic(x, depth + 1)) for k, x in v.items())))
    if isinstance(v, (list, tuple, set, frozenset)):
        items = [_generic(x, depth + 1) for x in v]
        return (type(v).__name__, tuple(sorted(items, key=repr)) if isinstance(v, (set, frozenset)) else tuple(items))
    if depth < 2 and hasattr(v, "__dict__"):
        return (type(v).__name__, tuple(sorted((k, _generic(x, depth + 1)) for k, x in vars(v).items())))
    return type(v).__name__


def extra_attrs(obj, known):
    """instance attributes outside the documented hidden state (a cache or flag added by a change to the library): hashed too, so that
    two states that differ only there are not merged"""
    try:
        return tuple(sorted((k, _generic(v)) for k, v in vars(obj).items() if k not in known))
    except Exception:  # noqa: BLE001  (no __dict__)
        return ()


SHAPE_KNOWN = {"_codes", "_step", "empty_removed", "_dtype", "starts", "lengths", "col_step"}
RAGGED_KNOWN = {"_RaggedBase__data", "_data", "_shape", "is_contigous", "_size", "_safe_mode", "_dtype"}
TABLE_KNOWN = {"_keys", "_values", "_mod", "_key_dtype", "_value_dtype", "_safe_mode", "dtype"}


def canon_shape(sh):
    t = type(sh).__name__
    x = extra_attrs(sh, SHAPE_KNOWN)
    if hasattr(sh, "_codes"):
        return (t, _arr(sh._codes), getattr(sh, "_step", None), bool(getattr(sh, "empty_removed", False)),
                str(getattr(sh, "_dtype", None)), x)
    if hasattr(sh, "starts") and hasattr(sh, "lengths"):
        return (t, _arr(sh.starts), _arr(sh.lengths), getattr(sh, "col_step", None), str(getattr(sh, "_dtype", None)), x)
    return (t, repr(sh))


def canon_ragged(x, scope=()):
    """scope: other in-scope RaggedArrays (parents / base), in a fixed order"""
    try:
        return _canon_ragged(x, scope)
    except Exception:  # noqa: BLE001  hidden attributes of an unexpected form: coarser state, same verdicts
        global FALLBACKS
        FALLBACKS += 1
        return ("fallback-exc", id(type(x)))


def _canon_ragged(x, scope=()):
    global FALLBACKS
    d = _buf(x)
    sh = getattr(x, "_shape", None)
    if d is None or sh is None:
        FALLBACKS += 1
        return ("fallback", str(x.dtype), tuple(map(tuple, x.tolist())))
    d = np.asarray(d)
    share = []
    for o in scope:
        od = _buf(o)
        share.append((bool(od is not None and np.shares_memory(d, od)), getattr(o, "_shape", None) is sh, o is x))
    return ("RA", canon_shape(sh), _arr(d), d.strides, bool(getattr(x, "is_contigous", True)),
            getattr(x, "_size", None), bool(getattr(x, "_safe_mode", True)), tuple(share), extra_attrs(x, RAGGED_KNOWN))


def shape_class(x):
    return type(getattr(x, "_shape", None)).__name__


def canon_table(t):
    """HashTable / Counter / HashSet"""
    global FALLBACKS
    try:
        keys = t._keys
        vals = t._values
        kv = canon_ragged(keys)
        if hasattr(vals, "_shape"):
            vv = ("arr", canon_ragged(vals, scope=(keys,)))
        else:
            vv = ("scalar", type(vals).__name__, repr(vals))
        return (type(t).__name__, kv, vv, repr(t._mod), str(t._key_dtype), str(t._value_dtype), bool(t._safe_mode), extra_attrs(t, TABLE_KNOWN))
    except Exception:  # noqa: BLE001
        FALLBACKS += 1
        return ("fallback", type(t).__name__)
