"""C01 -- a RaggedArray holds exactly the rows it was built from (Mode I)."""
import os
import numpy as np
from mc import dsl
from mc.norm import observe, is_refused, norm
from mc.checkutil import cmp, must_refuse, A, R, S, tmpdir

PROP = "C01"
RULE = ("cases = (row-length vector, dtype, value pattern, constructor) and (n, m, dtype) for the numpy "
        "round trip, enumerated completely; each case runs every reader once (one transition per reader); "
        "non-trivial = the array has at least one cell, or the case is a size-mismatch rejection")
ASSUMPTIONS = ["oracle = the input rows themselves; geometry = exclusive prefix sum in Python ints",
               "numpy's astype on one row is the reference for type conversion",
               "save/load is exercised as a round trip through a per-run temp directory only"]
REQUIRED_FEATURES = ["rows_of_different_dtypes", "empty_row_first", "empty_row_last", "consecutive_empty_rows", "all_rows_empty", "zero_rows",
                     "mismatch_rejected", "numpy_roundtrip", "offsets_form", "long_repr", "non_rectangular_refused", "non_contiguous_input"]
BOUNDS = {"quick": "LV(4,3) x 9 dtypes x 2 value patterns x 5 constructors, all readers; size mismatch -1,+1,0,2x; "
                   "from/to_numpy_array for n,m<=4 x 9 dtypes; one array of 120 cells (long repr branch); rows as arrays of different dtypes (5 rotations); tuple-shape constructor; transposed / Fortran / strided numpy inputs",
          "thorough": "LV(5,3) u LV(3,5) x 9 dtypes x 3 patterns x 5 constructors; numpy round trip n,m<=5"}
CTORS = ["flat_lens", "flat_shape", "rows_np", "rows_py_dtype", "flat_shape_tuple"]
# (only for the long array) row lengths handed over as a narrow unsigned ndarray whose running total does not fit that dtype


def shards(tier):
    if tier == "quick":
        vs = list(dsl.lens_vectors(4, 3))
        nm = 4
    else:
        vs = list(dsl.lens_vectors(5, 3)) + [v for v in dsl.lens_vectors(3, 5) if max(v, default=0) > 3]
        nm = 5
    out = [{"lens": v} for v in vs]
    out.append({"np": nm})
    out.append({"big": [40, 0, 80]})
    return out


def cases(shard, tier):
    pats = 2 if tier == "quick" else 3
    if "lens" in shard:
        for dt in dsl.DTYPES:
            for k in range(pats):
                for c in CTORS:
                    yield ["rows", shard["lens"], dt, k, c]
        yield ["mismatch", shard["lens"]]
        for k in range(5):
            yield ["mixed", shard["lens"], k]
    elif "np" in shard:
        for n in range(shard["np"] + 1):
            for m in range(shard["np"] + 1):
                for dt in dsl.DTYPES:
                    yield ["numpy", n, m, dt]
    else:
        yield ["rows", shard["big"], "int64", 0, "flat_lens"]
        yield ["rows", shard["big"], "float64", 1, "rows_np"]
        yield ["rows", [100, 0, 120, 50, 30], "int64", 0, "flat_lens_u8"]
        yield ["rows", [100, 0, 120, 50, 30], "int64", 0, "flat_lens_i16"]


def _lens_features(acc, lens):
    if not lens:
        acc.feature("zero_rows")
        return
    if lens[0] == 0:
        acc.feature("empty_row_first")
    if lens[-1] == 0:
        acc.feature("empty_row_last")
    if any(a == 0 and b == 0 for a, b in zip(lens, lens[1:])):
        acc.feature("consecutive_empty_rows")
    if sum(lens) == 0:
        acc.feature("all_rows_empty")


def check(case, acc):
    if case[0] == "rows":
        return _check_rows(case, acc)
    if case[0] == "mismatch":
        return _check_mismatch(case, acc)
    if case[0] == "mixed":
        return _check_mixed(case, acc)
    return _check_numpy(case, acc)


def _build(ctor, flat, lens, dt):
    from npstructures import RaggedArray, RaggedShape
    rows_np = dsl.split_rows(flat, lens)
    if ctor == "flat_lens":
        return RaggedArray(flat.copy(), list(lens))
    if ctor == "flat_lens_u8":
        return RaggedArray(flat.copy(), np.array(lens, dtype=np.uint8))
    if ctor == "flat_lens_i16":
        return RaggedArray(flat.copy(), np.array(lens, dtype=np.int16))
    if ctor == "flat_shape":
        return RaggedArray(flat.copy(), RaggedShape(list(lens)))
    if ctor == "flat_shape_tuple":
        return RaggedArray(flat.copy(), (len(lens), np.array(lens, dtype=int)))      # the (n_rows, row lengths) form that ra.shape has
    if ctor == "rows_np":
        return RaggedArray([r.copy() for r in rows_np])
    if ctor == "rows_py_dtype":
        return RaggedArray([r.tolist() for r in rows_np], dtype=np.dtype(dt))
    raise ValueError(ctor)


def _check_rows(case, acc):
    from npstructures import RaggedArray, RaggedShape
    _, lens, dt, k, ctor = case
    n, size = len(lens), sum(lens)
    _lens_features(acc, lens)
    if size:
        acc.nontrivial()
    if size > 100:
        acc.feature("long_repr")
    flat = dsl.pattern(dt, size, k)
    rows_np = dsl.split_rows(flat, lens)
    rows = [r.tolist() for r in rows_np]
    dts = str(flat.dtype)
    ra_obs = observe(lambda: _build(ctor, flat, lens, dt))
    if is_refused(ra_obs):
        acc.trans()
        acc.fail("constructor-refused", "constructed", ra_obs)
        return
    mk = lambda: _build(ctor, flat, lens, dt)   # a fresh object for every reader
    acc.state(("init", tuple(lens), dt, k))
    # element dtype is defined for every constructor except a list of rows with no cell at all
    want_dt = dts if (ctor != "rows_np" or size > 0) else None
    cmp(acc, "len", S(n), observe(lambda: len(mk())))
    cmp(acc, "size", S(size), observe(lambda: mk().size))
    cmp(acc, "shape[0]", S(n), observe(lambda: mk().shape[0]))
    cmp(acc, "shape[1]", A(lens, shape=(n,)), observe(lambda: np.asarray(mk().shape[1])))
    cmp(acc, "lengths", A(lens, shape=(n,)), observe(lambda: np.asarray(mk().lengths)))
    if want_dt:
        cmp(acc, "dtype", ("str", dts), observe(lambda: str(mk().dtype)))
    cmp(acc, "tolist", ("T", tuple(norm(r) for r in rows)), observe(lambda: [list(r) for r in mk().tolist()]))
    exp_iter = ("T", tuple(A(r, dtype=want_dt, shape=(len(r),)) for r in rows))
    o = observe(lambda: [np.asarray(r) for r in mk()], dt=True)
    if want_dt is None and not is_refused(o):
        o = ("T", tuple((x[0], None) + x[2:] for x in o[1]))
    cmp(acc, "iter", exp_iter, o)
    o = observe(lambda: mk().ravel(), dt=want_dt is not None)
    cmp(acc, "ravel", A(flat.tolist(), dtype=want_dt, shape=(size,)), o)
    cmp(acc, "ravel-twice", A(flat.tolist(), dtype=None, shape=(size,)), observe(lambda: (lambda x: (x.ravel(), x.ravel())[1])(mk())))
    for dt2 in dsl.DTYPES:
        exp = R([r.astype(dt2) for r in rows_np], dtype=dt2)
        cmp(acc, f"astype({dt2})", exp, observe(lambda: mk().astype(np.dtype(dt2)), dt=True))
    cmp(acc, "astype-leaves-source", R(rows), observe(lambda: (lambda x: (x.astype(np.float64), x)[1])(mk())))
    if n >= 2:
        # type conversion as the FIRST thing asked of a row selection (nothing has read it yet)
        cmp(acc, "astype of an unread row selection", R([r.astype(np.float64) for r in rows_np[::-1]], dtype="float64"),
            observe(lambda: mk()[::-1].astype(np.float64), dt=True))
        cmp(acc, "astype of an unread row list", R([r.astype(np.float64) for r in (rows_np[-1], rows_np[0])], dtype="float64"),
            observe(lambda: mk()[[n - 1, 0]].astype(np.float64), dt=True))
    # equality
    cmp(acc, "equals-same", S(True), observe(lambda: bool(mk().equals(RaggedArray(flat.copy(), list(lens))))))
    if size:
        other = flat.copy()
        other[-1] = other[-1] + 1 if flat.dtype != np.bool_ else ~other[-1]
        if other[-1] != flat[-1]:
            cmp(acc, "equals-one-cell-differs", S(False), observe(lambda: bool(mk().equals(RaggedArray(other, list(lens))))))
    if n >= 2 and lens[0] != lens[1] + 0 and (lens[0] > 0):
        l2 = list(lens)
        l2[0] -= 1
        l2[1] += 1
        cmp(acc, "equals-other-lengths", S(False), observe(lambda: bool(mk().equals(RaggedArray(flat.copy(), l2)))))
    # rectangular conversion
    if n and all(l == lens[0] for l in lens):
        o = observe(lambda: mk().to_numpy_array(), dt=True)
        cmp(acc, "to_numpy_array", A([list(r) for r in rows], dtype=dts if want_dt else o[1] if len(o) > 1 else None,
                                     shape=(n, lens[0])), o)
    elif n and ctor == "flat_lens":
        # not rectangular: there is no rectangle with "exactly those rows" -- any returned matrix misreports them
        o = observe(lambda: mk().to_numpy_array())
        acc.trans()
        acc.feature("non_rectangular_refused")
        if not is_refused(o):
            acc.fail("to_numpy_array(non-rectangular)-accepted", "refused", o)
    # save / load
    if ctor == "flat_lens":
        p = os.path.join(tmpdir(), f"c01_{os.getpid()}.npz")

        def roundtrip():
            mk().save(p)
            return RaggedArray.load(p)
        cmp(acc, "save/load", R(rows, dtype=dts), observe(roundtrip, dt=True))
        cmp(acc, "save/load-lengths", A(lens, shape=(n,)), observe(lambda: np.asarray(roundtrip().lengths)))
        # repr / str never fail and do not disturb
        cmp(acc, "repr-then-tolist", R(rows), observe(lambda: (lambda x: (repr(x), str(x), x)[2])(mk())))
        _geometry(acc, lens)


def _geometry(acc, lens):
    from npstructures import RaggedShape
    n, size = len(lens), sum(lens)
    starts, p = [], 0
    for l in lens:
        starts.append(p)
        p += l
    ends = [s + l for s, l in zip(starts, lens)]
    mk = lambda: RaggedShape(list(lens))
    cmp(acc, "shape.starts", A(starts, shape=(n,)), observe(lambda: np.asarray(mk().starts)))
    cmp(acc, "shape.ends", A(ends, shape=(n,)), observe(lambda: np.asarray(mk().ends)))
    cmp(acc, "shape.lengths", A(lens, shape=(n,)), observe(lambda: np.asarray(mk().lengths)))
    cmp(acc, "shape.size", S(size), observe(lambda: int(mk().size)))
    cmp(acc, "shape.n_rows", S(n), observe(lambda: int(mk().n_rows)))
    cells = [(i, j) for i, l in enumerate(lens) for j in range(l)]
    for f, (i, j) in enumerate(cells):
        cmp(acc, "ravel_multi_index", S(f), observe(lambda: int(mk().ravel_multi_index((i, j)))))
        cmp(acc, "unravel_multi_index", ("T", (S(i), S(j))), observe(lambda: tuple(int(x) for x in mk().unravel_multi_index(f))))
    if cells:
        rr = [c[0] for c in cells]
        cc = [c[1] for c in cells]
        cmp(acc, "ravel_multi_index-vector", A(list(range(size)), shape=(size,)),
            observe(lambda: np.asarray(mk().ravel_multi_index((np.array(rr), np.array(cc))))))
        cmp(acc, "unravel_multi_index-vector", ("T", (A(rr, shape=(size,)), A(cc, shape=(size,)))),
            observe(lambda: tuple(np.asarray(x) for x in mk().unravel_multi_index(np.arange(size)))))
        cmp(acc, "index_array", A(rr, shape=(size,)), observe(lambda: np.asarray(mk().index_array())))
        # the maps are index maps: whatever integer type the caller's (row, column) arrays have, the flat positions must be usable as
        # indices into the flat buffer (and select the same cells)
        for dtn in ("uint64", "int32", "uint8"):
            def as_index():
                flat_pos = mk().ravel_multi_index((np.array(rr, dtype=dtn), np.array(cc, dtype=dtn)))
                return np.arange(100, 100 + size)[flat_pos]
            cmp(acc, f"ravel_multi_index-vector({dtn}) used as an index", A(list(range(100, 100 + size)), shape=(size,)), observe(as_index))
    # to_dict / from_dict, both stored forms
    cmp(acc, "to_dict/from_dict", ("T", (A(starts, shape=(n,)), A(lens, shape=(n,)))),
        observe(lambda: (lambda s: (np.asarray(s.starts), np.asarray(s.lengths)))(RaggedShape.from_dict(mk().to_dict()))))
    acc.feature("offsets_form")
    offs = np.array([0] + ends if n else [0], dtype=np.int64)
    cmp(acc, "from_dict(offsets)", ("T", (A(starts, shape=(n,)), A(lens, shape=(n,)))),
        observe(lambda: (lambda s: (np.asarray(s.starts), np.asarray(s.lengths)))(RaggedShape.from_dict({"offsets": offs}))))
    cmp(acc, "shape-eq", S(True), observe(lambda: bool(mk() == RaggedShape(list(lens)))))


def _check_mismatch(case, acc):
    from npstructures import RaggedArray, RaggedShape
    lens = case[1]
    size = sum(lens)
    acc.nontrivial()
    for bad in sorted({size - 1, size + 1, 0, 2 * size} - {size, -1}):
        acc.feature("mismatch_rejected")
        must_refuse(acc, "mismatch(flat ndarray, list of lengths)", observe(lambda: RaggedArray(np.arange(bad), list(lens))))
        must_refuse(acc, "mismatch(flat ndarray, ndarray of lengths)", observe(lambda: RaggedArray(np.arange(bad), np.array(lens, dtype=int))))
        must_refuse(acc, "mismatch(flat list, list of lengths)", observe(lambda: RaggedArray(list(range(bad)), list(lens))))


def _check_numpy(case, acc):
    from npstructures import RaggedArray
    _, n, m, dt = case
    acc.feature("numpy_roundtrip")
    a = dsl.pattern(dt, n * m, 1).reshape(n, m)
    if n * m:
        acc.nontrivial()
    dts = str(a.dtype)
    mk = lambda: RaggedArray.from_numpy_array(a.copy())
    acc.state(("np", n, m, dt))
    cmp(acc, "from_numpy_array", R([r for r in a], dtype=dts), observe(mk, dt=True))
    cmp(acc, "from_numpy_array-lengths", A([m] * n, shape=(n,)), observe(lambda: np.asarray(mk().lengths)))
    cmp(acc, "from_numpy_array-len", S(n), observe(lambda: len(mk())))
    o = observe(lambda: mk().to_numpy_array(), dt=True)
    if n == 0:
        # zero rows: the statement fixes values/order/lengths; a (0, m) matrix has no cell and its
        # column count is not recoverable from zero row lengths -> only "is an empty 2-D array" is demanded
        ok = (not is_refused(o)) and o[0] == "A" and len(o[2]) == 2 and o[2][0] == 0
        acc.trans()
        if not ok:
            acc.fail("to_numpy_array(zero rows)", "empty 2-D array", o)
        elif o[1] != dts:
            acc.fail("to_numpy_array(zero rows)-dtype", dts, o, classifier="c01.zero-row-to_numpy_array-dtype")
        return
    cmp(acc, "numpy-roundtrip", A(a.tolist(), dtype=dts, shape=(n, m)), o)
    # the same matrix handed over in other memory layouts: transposed view of the transposed data, Fortran order, every second row of a taller matrix
    acc.feature("non_contiguous_input")
    layouts = {"transposed-view": np.ascontiguousarray(a.T).T, "fortran": np.asfortranarray(a), "strided-rows": np.repeat(a, 2, axis=0)[::2]}
    for name, b in layouts.items():
        cmp(acc, f"from_numpy_array({name})", R([r for r in a], dtype=dts), observe(lambda: RaggedArray.from_numpy_array(b), dt=True))
        cmp(acc, f"numpy-roundtrip({name})", A(a.tolist(), dtype=dts, shape=(n, m)), observe(lambda: RaggedArray.from_numpy_array(b).to_numpy_array(), dt=True))


MIXED = ["int8", "float64", "int64", "bool", "uint8"]


def _check_mixed(case, acc):
    """rows handed over as numpy arrays of DIFFERENT element types (no dtype argument): every value must survive (small values, exact in
    every candidate common type); which common type is chosen is not demanded"""
    from npstructures import RaggedArray
    _, lens, k = case
    acc.feature("rows_of_different_dtypes")
    rows_np = []
    for i, l in enumerate(lens):
        dt = MIXED[(i + k) % len(MIXED)]
        if dt == "bool":
            vals = [(j + i) % 2 == 0 for j in range(l)]
        elif dt == "float64":
            vals = [0.5 + j + i for j in range(l)]
        else:
            vals = [2 + 3 * j + i for j in range(l)]
        rows_np.append(np.array(vals, dtype=dt))
    if len({str(r.dtype) for r in rows_np if len(r)}) > 1:
        acc.nontrivial()
    exp = ("T", tuple(norm(r.tolist()) for r in rows_np))
    cmp(acc, "mixed-dtype rows: tolist", exp, observe(lambda: [list(r) for r in RaggedArray([r.copy() for r in rows_np]).tolist()]))
    cmp(acc, "mixed-dtype rows: lengths", A(lens, shape=(len(lens),)), observe(lambda: np.asarray(RaggedArray([r.copy() for r in rows_np]).lengths)))
