"""C02 -- indexing reads exactly the addressed cells, or refuses (Mode I).

Domain: every row-length vector of LV(R, L) x the selector grammar of DESIGN section 3, on arrays
whose cells are the distinct integers 1..size (so a wrong cell is always visibly wrong), plus a
dtype-preservation pass on bool / uint8 / float64 cells.
Oracle: the selectors applied to the plain list of rows (Python list/slice semantics)."""
import itertools
import numpy as np
from mc import dsl
from mc.norm import observe, is_refused
from mc.refmodel import ragged as M

PROP = "C02"
RULE = ("cases = (row-length vector, index expression), enumerated completely and without repeats "
        "from LV(R,L) x selector grammar; a case is non-trivial when the model result contains at "
        "least one cell or the expression must be refused")
ASSUMPTIONS = ["reference model: Python list-of-rows indexing (mc/refmodel/ragged.py)",
               "cells hold distinct integers, so value equality implies cell identity",
               "exception types are not compared: any exception counts as refusal"]
REQUIRED_FEATURES = ["selection_has_empty_row", "must_refuse", "neg_step_col", "result_spans_rows",
                     "col_bound_beyond_row_end", "neg_col_int", "dtype_pass"]
BOUNDS = {
    "quick": "LV(3,3) (85 arrays): all 1-D selectors (ints as int/np.int64/0-d array, slices with bounds in [-(n+1),n+1] "
             "and steps None,+-1,+-2,+-3, lists/arrays of length<=2, all masks, wrong-length masks, out-of-range lists, "
             "1-tuples) ; pairs (row selector from the reduced set P(n)) x (every column int in [-(m+1),m], every column "
             "slice with bounds in [-(m+1),m+1], steps None,+-1,+-2,+-3); 3-tuples with embedded Ellipsis; dtype pass; boolean masks also as plain lists of bools; a 16-row array with 13 x 13 selector pairs; the indexed array re-read after every case",
    "thorough": "LV(4,3) u LV(2,5): same grammar with steps up to +-4 and the full row-selector set in pairs for n<=2",
}

STEPS_Q = (None, 1, 2, 3, -1, -2, -3)
STEPS_T = (None, 1, 2, 3, 4, -1, -2, -3, -4)


MEDIUM = [3, 0, 7, 1, 0, 0, 12, 2, 5, 0, 9, 4, 1, 33, 0, 2]      # one larger array (16 rows, 79 cells): size / threshold effects


def shards(tier):
    if tier == "quick":
        return [{"lens": v} for v in dsl.lens_vectors(3, 3)] + [{"lens": MEDIUM, "medium": 1}]
    vs = list(dsl.lens_vectors(4, 3))
    vs += [v for v in dsl.lens_vectors(2, 5) if max(v, default=0) > 3]
    return [{"lens": v} for v in vs]


def pair_row_selectors(n, level):
    """row selectors used in (rows, cols) pairs.  level 0 (quick): every ordered row subset that an
    int / slice / list / mask can produce on n<=3 rows, without the grid of slice bounds (that grid
    is covered by the 1-D cases, and row and column selection compose through one interface);
    level 1: more slices and negative lists; level 2: the full 1-D row-selector set."""
    if level >= 2:
        yield from dsl.row_selectors(n, int_kinds=("i",))
        return
    yield "E"
    for i in range(-(n + 1), n + 1):
        yield ["i", i]
    if n:
        yield ["n", n - 1]
    if level == 0:
        for sl in ([None, None, None], [None, None, -1], [1, None, None], [None, -1, None], [None, None, 2],
                   [1, None, -1], [-1, None, -2], [None, n + 1, None], [1, 1, None]):
            yield ["s"] + sl
    else:
        for a in (None, 1, -1):
            for b in (None, 1, -1, n + 1):
                for st in (None, 2, -1, -2):
                    yield ["s", a, b, st]
    yield ["l", []]
    for k in (1, 2):
        for t in itertools.product(range(-n, n), repeat=k):
            if k == 2 and (t[0] < 0 or t[1] < 0) and (level == 0 or (t[0] < 0) != (t[1] < 0)):
                continue
            yield ["l", list(t)]
    if n:
        yield ["a", [n - 1, 0]]
        yield ["l", [n]]
    for t in itertools.product([0, 1], repeat=n):
        yield ["m", list(t)]
        if n:
            yield ["lb", list(t)]
    yield ["m", [1] * (n + 1)]
    yield ["lb", [1] * (n + 1)]


def _medium_cases(lens):
    n = len(lens)
    rows = ["E", ["i", 0], ["i", -1], ["i", 13], ["s", None, None, None], ["s", 2, 11, None], ["s", None, None, -1], ["s", 12, 1, -3], ["s", 1, None, 4],
            ["l", [13, 0, 6, 6, 15]], ["a", [15, 14, 13]], ["m", [int(i % 3 != 1) for i in range(n)]], ["m", [1] * n],
            ["lb", [int(i % 3 != 1) for i in range(n)]]]
    cols = ["E", ["i", 0], ["i", -1], ["i", 1], ["s", None, None, None], ["s", 1, None, None], ["s", None, None, -1], ["s", -2, None, None], ["s", None, 4, 2],
            ["s", 10, 2, -3], ["s", -1, None, -2], ["s", 40, None, -1], ["s", 2, 30, 5]]
    for r in rows:
        yield [lens, r, "int64"]
        for c in cols:
            yield [lens, ["t", r, c], "int64"]
    for dt in ("uint8", "float64"):
        yield [lens, ["t", ["s", None, None, -1], ["s", None, None, -2]], dt]


def cases(shard, tier):
    lens = shard["lens"]
    if shard.get("medium"):
        yield from _medium_cases(lens)
        return
    n, m = len(lens), max(lens, default=0)
    steps = STEPS_Q if tier == "quick" else STEPS_T
    for rs in dsl.row_selectors(n, steps, list_len=3):
        yield [lens, rs, "int64"]
    for rs in ("E", ["i", 0], ["s", None, None, -1], ["l", [0]], ["m", [1] * n]):
        yield [lens, ["t", rs], "int64"]
    cols = list(dsl.col_selectors(m, steps))
    for rs in pair_row_selectors(n, 0 if tier == "quick" else (2 if n <= 2 else 1)):
        for cs in cols:
            yield [lens, ["t", rs, cs], "int64"]
    for cs in cols[: 1 + 2 * (m + 1) + 60]:
        if cs == "E":
            continue
        yield [lens, ["t", ["s", None, None, None], "E", cs], "int64"]
        yield [lens, ["t", "E", ["s", None, None, -1], cs], "int64"]
        yield [lens, ["t", ["l", [0]] if n else ["l", []], cs, "E"], "int64"]
    # dtype-preservation pass on a reduced selector set
    for dt in ("bool", "uint8", "float64"):
        for sel in (["i", 0], ["i", -1], ["s", None, None, -1], ["s", 1, None, 2], ["l", [0, 0]], "E",
                    ["m", [1] * n], ["t", ["s", None, None, None], ["s", None, None, -1]],
                    ["t", ["s", None, None, None], ["s", 1, None, None]], ["t", ["i", 0], ["i", 0]],
                    ["t", "E", ["i", 0]], ["t", ["i", -1], ["s", None, 2, None]], ["t", ["l", [0]], ["s", -2, None, None]]):
            yield [lens, sel, dt]


def check(case, acc):
    from npstructures import RaggedArray
    lens, sel, dt = case
    size = sum(lens)
    if dt == "int64":
        flat = np.arange(1, size + 1, dtype=np.int64)
    else:
        flat = dsl.pattern(dt, size, 0)
        acc.feature("dtype_pass")
    rows = [r.tolist() for r in dsl.split_rows(flat, lens)]
    ra = RaggedArray(flat.copy(), list(lens))
    idx = dsl.dec(sel)
    try:
        kind, coords, alias = M.index_coords(lens, idx)
        exp = M.read(rows, kind, coords)
    except M.Refuse:
        kind, coords, exp = None, None, "refuse"
    _features(acc, lens, sel, kind, coords)
    obs = observe(lambda: ra[idx], dt=(dt != "int64"))
    acc.trans()
    acc.state(obs)
    acc.outcome(obs)
    post = observe(lambda: ra)
    if post != ("R", None, tuple(tuple(r) for r in rows)):
        acc.fail("indexing-changed-the-array", ("R", None, tuple(tuple(r) for r in rows)), post)
    if exp == "refuse":
        acc.nontrivial()
        if not is_refused(obs):
            acc.fail("accepted-nonexistent-index", "refused", obs, classifier=_classify(lens, sel, "accepted"))
        return
    if dt != "int64":
        exp = (exp[0], str(flat.dtype)) + tuple(exp[2:])
    if kind == "cell" or (coords and (kind == "flat" or any(coords))):
        acc.nontrivial()
    if obs != exp:
        bad = "refused-valid-index" if is_refused(obs) else "wrong-cells"
        acc.fail(bad, exp, obs, classifier=_classify(lens, sel, bad))


def _parts(sel):
    if isinstance(sel, list) and sel and sel[0] == "t":
        p = [s for s in sel[1:]]
        if len(p) > 2:
            p = [s for s in p if s != "E"]
        if len(p) == 2:
            return p[0], p[1]
        return p[0], None
    return sel, None


def _features(acc, lens, sel, kind, coords):
    rs, cs = _parts(sel)
    if kind is None:
        acc.feature("must_refuse")
    if cs is not None and cs != "E":
        if cs[0] == "s":
            if cs[3] is not None and cs[3] < 0:
                acc.feature("neg_step_col")
            m = max(lens, default=0)
            for b in (cs[1], cs[2]):
                if b is not None and lens and (b > min(lens) or b < -min(lens)):
                    acc.feature("col_bound_beyond_row_end")
                    break
        elif cs[0] == "i" and cs[1] < 0:
            acc.feature("neg_col_int")
    if kind == "ragged":
        rows = {r for row in coords for (r, c) in row}
        if cs is not None:
            # which rows were addressed (even if their column selection is empty)
            try:
                k2, sel_rows = M.select_rows(len(lens), Ellipsis if rs == "E" else dsl.dec(rs))
                if k2 != "row" and any(lens[r] == 0 for r in sel_rows):
                    acc.feature("selection_has_empty_row")
            except M.Refuse:
                pass
        elif any(len(r) == 0 for r in coords):
            acc.feature("selection_has_empty_row")
        if sum(1 for r in coords if r) > 1:
            acc.feature("result_spans_rows")
        if not coords:
            acc.feature("result_zero_rows")


def _classify(lens, sel, bad):
    """names of the defect classes seen on the pinned tree (labels; only entries listed as
    'known' in known_findings.json are ever suppressed)"""
    rs, cs = _parts(sel)
    if cs is None or cs == "E":
        return None
    if cs[0] == "i" and cs[1] < 0 and bad == "accepted":
        return "c02.negative-column-int-below-row-start-accepted"
    if cs[0] == "s" and cs[3] is not None and cs[3] < 0:
        try:
            k2, sel_rows = M.select_rows(len(lens), Ellipsis if rs == "E" else dsl.dec(rs))
        except M.Refuse:
            return None
        if k2 != "row" and any(lens[r] == 0 for r in sel_rows):
            return "c02.negative-step-column-slice-over-empty-row"
    return None
