"""C03 -- assignment writes exactly the addressed cells and nothing else (Mode I)."""
import copy
import itertools
import numpy as np
from mc import dsl
from mc.norm import observe, is_refused, norm
from mc.refmodel import ragged as M

PROP = "C03"
RULE = ("cases = (row-length vector, index expression accepted for reading with non-repeating rows, value kind) "
        "and (row-length vector, boolean ragged mask, value kind), enumerated completely; after the assignment the "
        "whole target (all cells, row count, row lengths, dtype) and the value operand are compared with the model; "
        "non-trivial = at least one cell addressed, or a mismatching ragged value that must be refused")
ASSUMPTIONS = ["addressed coordinates come from the C02 reference model (Python list/slice semantics)",
               "target cells hold distinct integers 1..size and written values are distinct and disjoint from them",
               "any exception counts as refusal; a refused assignment must leave the target unchanged"]
REQUIRED_FEATURES = ["kind_cell", "kind_flat", "kind_ragged", "vk_colvec", "vk_ragged", "vk_bad", "vk_view",
                     "selection_has_empty_row", "neg_step_col", "mask_assign", "untouched_cells_exist", "dtype_pass"]
BOUNDS = {"quick": "LV(3,2) (40 arrays) x reduced bound grid (bounds None,-(k+1),-1,0,1,2,k,k+1; steps None,2,-1,-2) x "
                   "value kinds scalar/np scalar/flat/(k,1) ndarray/(k,1) list/matching RaggedArray/pending-view RaggedArray/"
                   "3 mismatching RaggedArrays; every boolean ragged mask pattern x scalar/flat; list-of-bools masks; a 6-row array with 4-6-entry row lists x every value kind; float target values",
          "thorough": "LV(3,3) u LV(4,2), full C02 bound grid with steps None,+-1,+-2,+-3"}
VK_ALL = ["scalar", "npscalar", "flat", "colvec", "colvec_list", "ragged", "ragged_view", "bad_plus", "bad_shift", "bad_rows"]


MEDIUM = [2, 0, 3, 1, 2, 4]


def shards(tier):
    if tier == "quick":
        return [{"lens": v} for v in dsl.lens_vectors(3, 2)] + [{"lens": MEDIUM, "medium": 1}]
    vs = list(dsl.lens_vectors(3, 3)) + [v for v in dsl.lens_vectors(4, 2) if len(v) == 4]
    return [{"lens": v} for v in vs]


def _bounds(k, tier):
    if tier != "quick":
        return [None] + list(range(-(k + 1), k + 2))
    return [None] + sorted({-(k + 1), -1, 0, 1, 2, k, k + 1} & set(range(-(k + 1), k + 2)))


def _slices(k, tier):
    steps = (None, 2, -1, -2) if tier == "quick" else (None, 1, 2, 3, -1, -2, -3)
    b = _bounds(k, tier)
    for a in b:
        for c in b:
            for st in steps:
                yield ["s", a, c, st]


def _row_selectors(n, tier):
    yield "E"
    yield "T0"
    for i in range(-n, n):
        yield ["i", i]
    if n:
        yield ["n", n - 1]
        yield ["z", 0]
    yield from _slices(n, tier)
    yield ["l", []]
    for k in (1, 2, 3):
        for t in itertools.product(range(-n, n), repeat=k):
            if len({i % n for i in t}) < k:
                continue
            if k == 3 and any(i < 0 for i in t):
                continue
            yield ["l", list(t)]
            if k == 2 and t[0] >= 0 and t[1] >= 0:
                yield ["a", list(t)]
    for t in itertools.product([0, 1], repeat=n):
        yield ["m", list(t)]
        if n:
            yield ["lb", list(t)]


def _pair_rows(n):
    yield "E"
    for i in range(-n, n):
        yield ["i", i]
    for sl in ([None, None, None], [None, None, -1], [1, None, None], [None, -1, None], [None, None, 2], [1, None, -1]):
        yield ["s"] + sl
    yield ["l", []]
    for k in (1, 2):
        for t in itertools.product(range(n), repeat=k):
            if len(set(t)) == k:
                yield ["l", list(t)]
    if n:
        yield ["l", [-1]]
    for t in itertools.product([0, 1], repeat=n):
        yield ["m", list(t)]
    if n:
        yield ["lb", [i % 2 for i in range(n)]]
        yield ["lb", [1] * n]


def _col_selectors(m, tier):
    yield "E"
    for j in range(-m, m):
        yield ["i", j]
    yield from _slices(m, tier)


def _medium_cases(lens):
    """a 6-row array: row lists of 4-6 entries in every kind of order (sorted, reversed, lowest-first/highest-last but shuffled inside,
    with gaps), masks, slices; each with every value kind"""
    import itertools as it
    n = len(lens)
    sels = [["l", list(p)] for p in ([0, 2, 1, 3], [1, 3, 2, 4], [0, 3, 1, 2, 4], [5, 0, 3, 1, 2, 4], [0, 1, 2, 3], [3, 2, 1, 0], [0, 2, 4], [4, 2, 0, 5],
                                     [1, 2, 4, 3, 5], [-1, 0, -3, 1])]
    sels += [["a", [0, 2, 1, 3]], ["m", [1, 0, 1, 1, 0, 1]], ["s", 1, 5, None], ["s", None, None, -2], ["s", 4, 0, -1]]
    pairs = [["t", r, c] for r in (["l", [0, 2, 1, 3]], ["l", [4, 2, 3, 0]], ["s", 1, 5, None]) for c in (["s", 1, None, None], ["s", None, None, -1], ["s", None, 2, None])]
    for sel in sels + pairs:
        for vk in VK_ALL:
            yield [lens, sel, vk]


def cases(shard, tier):
    lens = shard["lens"]
    if shard.get("medium"):
        yield from _medium_cases(lens)
        return
    n, m = len(lens), max(lens, default=0)
    sels = list(_row_selectors(n, tier))
    sels += [["t", ["s", None, None, None]], ["t", "E"]]
    cols = list(_col_selectors(m, tier))
    for rs in _pair_rows(n):
        for cs in cols:
            sels.append(["t", rs, cs])
    for sel in sels:
        try:
            kind, coords, alias = M.index_coords(lens, dsl.dec(sel))
        except M.Refuse:
            continue
        for vk in VK_ALL:
            if kind == "cell" and vk not in ("scalar", "npscalar"):
                continue
            if kind == "flat" and vk not in ("scalar", "npscalar", "flat"):
                continue
            if vk == "flat" and not (coords if kind == "flat" else any(coords)):
                continue
            if vk == "bad_shift" and len(coords) < 2:
                continue
            is_pair = sel[0] == "t" and len(sel) == 3
            if tier == "quick" and is_pair and vk in ("npscalar", "colvec_list", "bad_shift", "bad_rows") and sel[1] != "E":
                continue    # these kinds do not depend on how the selection was computed; kept for 1-D and [..., cols]
            yield [lens, sel, vk]
    size = sum(lens)
    for bits in itertools.product([0, 1], repeat=size):
        for vk in ("scalar", "flat"):
            yield [lens, ["mask", list(bits)], vk]
    # dtype pass: the same write into float64 / uint8 / bool targets (reduced selector set)
    for dt in ("float64", "uint8", "bool"):
        for sel in ("E", ["s", 1, None, None], ["s", None, None, -1], ["l", [n - 1, 0]] if n else ["l", []], ["i", 0],
                    ["t", ["s", None, None, None], ["s", 1, None, None]], ["t", ["s", None, None, None], ["s", None, None, -2]],
                    ["t", ["i", -1], ["i", 0]], ["t", "E", ["i", 0]]):
            try:
                kind, coords, alias = M.index_coords(lens, dsl.dec(sel))
            except M.Refuse:
                continue
            for vk in ("scalar", "flat", "colvec", "ragged"):
                if kind == "cell" and vk != "scalar":
                    continue
                if kind == "flat" and vk not in ("scalar", "flat"):
                    continue
                if vk == "flat" and not (coords if kind == "flat" else any(coords)):
                    continue
                yield [lens, sel, vk, dt]


def _mk_ragged(rows):
    from npstructures import RaggedArray
    flat = np.array([v for r in rows for v in r], dtype=np.int64)
    return RaggedArray(flat, [len(r) for r in rows])


def check(case, acc):
    from npstructures import RaggedArray
    lens, sel, vk = case[:3]
    tdt = case[3] if len(case) > 3 else "int64"
    size = sum(lens)
    flat = np.arange(1, size + 1, dtype=np.int64)
    if tdt != "int64":
        acc.feature("dtype_pass")
        flat = dsl.pattern(tdt, size, 1)
        return _check_typed(acc, lens, sel, vk, tdt, flat)
    rows = [r.tolist() for r in dsl.split_rows(flat, lens)]
    ra = RaggedArray(flat.copy(), list(lens))
    if isinstance(sel, list) and sel and sel[0] == "mask":
        return _check_mask(acc, lens, rows, ra, sel[1], vk)
    idx = dsl.dec(sel)
    kind, coords, alias = M.index_coords(lens, idx)
    acc.feature("kind_" + kind)
    if kind == "cell":
        cells, shape = [coords], None
    elif kind == "flat":
        cells, shape = list(coords), None
    else:
        cells, shape = [c for r in coords for c in r], [len(r) for r in coords]
        if any(lens[r] == 0 for r in M.select_rows(len(lens), _rowpart(idx))[1]) if True else False:
            acc.feature("selection_has_empty_row")
    if _neg_col_step(sel):
        acc.feature("neg_step_col")
    if len(cells) < size:
        acc.feature("untouched_cells_exist")
    expvals, val, val_before = None, None, None
    if vk == "scalar":
        val = -7
        expvals = [-7] * len(cells)
    elif vk == "npscalar":
        val = np.int64(-9)
        expvals = [-9] * len(cells)
    elif vk == "flat":
        val = np.arange(100, 100 + len(cells), dtype=np.int64)
        expvals = val.tolist()
    elif vk in ("colvec", "colvec_list"):
        acc.feature("vk_colvec")
        val = np.arange(200, 200 + len(shape), dtype=np.int64)[:, None]
        expvals = [200 + i for i, l in enumerate(shape) for _ in range(l)]
        if vk == "colvec_list":
            val = val.tolist()
    elif vk == "ragged":
        acc.feature("vk_ragged")
        c = itertools.count(300)
        v = [[next(c) for _ in range(l)] for l in shape]
        val = _mk_ragged(v)
        expvals = [e for r in v for e in r]
    elif vk == "ragged_view":
        acc.feature("vk_view")
        src = RaggedArray(flat.copy() + 400, list(lens))
        val = src[idx]          # the same selection of another array: a pending view of the right shape
        expvals = [400 + rows[r][c] for (r, c) in cells]
    else:
        acc.feature("vk_bad")
        shp = list(shape)
        if vk == "bad_plus":
            if shp:
                shp[0] += 1
            else:
                shp = [1]
        elif vk == "bad_shift":
            j = next((i for i, l in enumerate(shp) if l > 0), None)
            if j is None:
                shp[0] += 1
            else:
                shp[j] -= 1
                shp[(j + 1) % len(shp)] += 1
        else:
            shp = shp + [0]
        val = RaggedArray(np.arange(500, 500 + sum(shp), dtype=np.int64), shp)
    if isinstance(val, np.ndarray):
        val_before = val.copy()
    elif isinstance(val, RaggedArray):
        val_before = norm(val) if vk != "ragged_view" else None
    exp = copy.deepcopy(rows)
    if expvals is not None:
        for (r, c), v in zip(cells, expvals):
            exp[r][c] = int(v)
    if cells or expvals is None:
        acc.nontrivial()

    def assign():
        ra[idx] = val
        return None
    res = observe(assign)
    post = observe(lambda: ra, dt=True)
    post_lens = observe(lambda: np.asarray(ra.lengths))
    acc.trans()
    acc.state(post)
    acc.outcome((res, post))
    exp_post = ("R", "int64", tuple(tuple(r) for r in exp))
    exp_lens = ("A", None, (len(lens),), tuple(lens))
    if expvals is None:
        if not is_refused(res):
            acc.fail("mismatching-value-accepted", "refused", post)
        elif post != exp_post or post_lens != exp_lens:
            acc.fail("refused-assignment-changed-target", exp_post, post)
        return
    if is_refused(res):
        acc.fail("valid-assignment-refused", exp_post, res, classifier=_classify(lens, idx, sel))
    elif post != exp_post or post_lens != exp_lens:
        acc.fail("wrong-cells-written", (exp_post, exp_lens), (post, post_lens), classifier=_classify(lens, idx, sel))
    if val_before is not None:
        now = val if isinstance(val, np.ndarray) else norm(val)
        same = np.array_equal(now, val_before) if isinstance(val, np.ndarray) else now == val_before
        if not same:
            acc.fail("value-operand-modified", str(val_before), str(now))


def _check_typed(acc, lens, sel, vk, tdt, flat):
    """dtype pass: the assigned values are converted to the target's dtype exactly as numpy converts them when
    assigning into one row; the target keeps its dtype"""
    from npstructures import RaggedArray
    dt = flat.dtype
    rows = [r.copy() for r in dsl.split_rows(flat, lens)]
    ra = RaggedArray(flat.copy(), list(lens))
    idx = dsl.dec(sel)
    kind, coords, alias = M.index_coords(lens, idx)
    if kind == "cell":
        cells, shape = [coords], None
    elif kind == "flat":
        cells, shape = list(coords), None
    else:
        cells, shape = [c for r in coords for c in r], [len(r) for r in coords]
    src = {"float64": [0.7, 1e16, float("inf"), 0.1], "uint8": [7, 255, 0, 9], "bool": [True, False, True, True]}[tdt]
    if vk == "scalar":
        val = src[0]
        vals = [src[0]] * len(cells)
    elif vk == "flat":
        vals = [src[i % 4] for i in range(len(cells))]
        val = np.array(vals, dtype=dt)
    elif vk == "colvec":
        per = [src[i % 4] for i in range(len(shape))]
        val = np.array(per, dtype=dt)[:, None]
        vals = [per[i] for i, l in enumerate(shape) for _ in range(l)]
    else:
        vals = [src[i % 4] for i in range(len(cells))]
        val = RaggedArray(np.array(vals, dtype=dt), list(shape))
    exp = [r.copy() for r in rows]
    for (r, c), v in zip(cells, vals):
        exp[r][c] = v
    if cells:
        acc.nontrivial()

    def assign():
        ra[idx] = val
    res = observe(assign)
    post = observe(lambda: ra, dt=True)
    acc.trans()
    acc.state(post)
    acc.outcome((res, post))
    exp_post = ("R", str(dt), tuple(tuple(x.item() for x in r) for r in exp))
    if is_refused(res):
        acc.fail("valid-assignment-refused", exp_post, res)
    elif post != exp_post:
        acc.fail("wrong-cells-written", exp_post, post)


def _check_mask(acc, lens, rows, ra, bits, vk):
    from npstructures import RaggedArray
    acc.feature("mask_assign")
    size = sum(lens)
    mask = RaggedArray(np.array(bits, dtype=bool), list(lens))
    cells = [(r, c) for r in range(len(lens)) for c in range(lens[r])]
    hit = [cell for cell, b in zip(cells, bits) if b]
    if len(hit) < size:
        acc.feature("untouched_cells_exist")
    if vk == "scalar":
        val, expvals = -7, [-7] * len(hit)
    else:
        val = np.arange(100, 100 + len(hit), dtype=np.int64)
        expvals = val.tolist()
    exp = copy.deepcopy(rows)
    for (r, c), v in zip(hit, expvals):
        exp[r][c] = int(v)
    if hit:
        acc.nontrivial()

    def assign():
        ra[mask] = val
    res = observe(assign)
    post = observe(lambda: ra, dt=True)
    post_lens = observe(lambda: np.asarray(ra.lengths))
    acc.trans()
    acc.state(post)
    acc.outcome((res, post))
    exp_post = ("R", "int64", tuple(tuple(r) for r in exp))
    if is_refused(res):
        acc.fail("valid-mask-assignment-refused", exp_post, res)
    elif post != exp_post or post_lens != ("A", None, (len(lens),), tuple(lens)):
        acc.fail("wrong-cells-written(mask)", exp_post, post)
    if observe(lambda: mask) != ("R", None, tuple(tuple(bool(b) for b in r) for r in dsl.split_rows(np.array(bits, dtype=bool), lens))):
        acc.fail("mask-operand-modified", "unchanged", observe(lambda: mask))


def _rowpart(idx):
    if isinstance(idx, tuple):
        if len(idx) == 0:
            return Ellipsis
        p = [i for i in idx if i is not Ellipsis] if len(idx) > 2 else list(idx)
        return p[0] if p[0] is not Ellipsis else slice(None)
    return idx


def _neg_col_step(sel):
    if isinstance(sel, list) and sel and sel[0] == "t" and len(sel) >= 3:
        cs = sel[-1]
        return isinstance(cs, list) and cs[0] == "s" and cs[3] is not None and cs[3] < 0
    return False


def _classify(lens, idx, sel):
    return None
