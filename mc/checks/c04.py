"""C04 -- element-wise ufuncs act row by row, with column broadcasting (Mode I)."""
import operator
import numpy as np
from mc import dsl
from mc.norm import observe, is_refused, norm
from mc.checkutil import R

PROP = "C04"
RULE = ("cases = (row-length vector, dtype1, dtype2, ufunc, operand kind, side), enumerated completely; the oracle is the "
        "ufunc applied by numpy to each row separately (and to the scalar / i-th column entry), result dtype = numpy's dtype "
        "for the same operand kinds on flat arrays; cases on which numpy itself refuses the reference computation are "
        "undefined territory and skipped; non-trivial = at least one cell and the reference is defined")
ASSUMPTIONS = ["numpy applied to one row at a time is the reference; NEP-50 promotion of the installed numpy defines the result dtype",
               "float alphabet: dyadic values and correctly-rounded ufuncs only (power / floor_divide / shifts on integers only)",
               "left_shift only with shift counts in [0, 7] (other counts are C-undefined)"]
REQUIRED_FEATURES = ["empty_row", "zero_rows", "column_left", "column_right", "scalar_left", "must_refuse_shape",
                     "sign_bit_column", "unary", "operator_form", "undefined_reference", "scalar_alphabet", "nan_comparisons"]
BOUNDS = {"quick": "LV(3,2) (40 shapes) x 9x9 dtype pairs x 19 binary ufuncs x {same-shape ragged, numpy scalar L/R, 0-d array L/R, "
                   "(n,1) ndarray L/R} + Python int/float/bool L/R + (n,1) list-of-lists L/R + 3 mismatching ragged operands "
                   "+ 7 unary ufuncs + 17 Python operators; scalar alphabet {0,1,2,-1,2.0,0.5,1.0,False} as Python and as numpy scalars of 6 types x both sides x every binary ufunc / 6 operators; unary plus and abs(); one 16-row array for 3 dtypes",
          "thorough": "LV(4,2) u LV(3,3), same alphabets, two value patterns for the second operand"}

BINARY = ["add", "subtract", "multiply", "true_divide", "floor_divide", "power", "maximum", "minimum", "equal", "not_equal",
          "less", "greater_equal", "bitwise_and", "bitwise_or", "bitwise_xor", "left_shift", "logical_and", "logical_or", "logical_xor"]
UNARY = ["negative", "absolute", "invert", "logical_not", "sqrt", "sign", "square"]
OPERATORS = {"+": operator.add, "-": operator.sub, "*": operator.mul, "/": operator.truediv, "//": operator.floordiv,
             "**": operator.pow, "&": operator.and_, "|": operator.or_, "^": operator.xor, "<": operator.lt, "<=": operator.le,
             "==": operator.eq, "!=": operator.ne, ">": operator.gt, ">=": operator.ge}
UNARY_OPS = {"~": operator.invert, "neg": operator.neg, "pos": operator.pos, "abs": abs}
FLOAT_EXCLUDED = {"power", "floor_divide"}
PYSCALARS = {"pyint": 3, "pyfloat": 2.5, "pybool": True}
# scalar alphabet: the small values that tempt a special case (0, 1, 2, -1, 1/2), each as Python and numpy scalars of several types
SALPHA = [0, 1, 2, -1, 2.0, 0.5, 1.0, False, np.int8(2), np.int64(2), np.uint8(2), np.float32(2), np.float64(2.0), np.float32(0.5),
          np.int64(0), np.int64(1), np.int8(-1), np.bool_(True)]


def shards(tier):
    if tier == "quick":
        vs = list(dsl.lens_vectors(3, 2))
    else:
        vs = list(dsl.lens_vectors(4, 2)) + [v for v in dsl.lens_vectors(3, 3) if max(v, default=0) == 3]
    out = [{"lens": v, "dt1": dt} for v in vs for dt in dsl.DTYPES]
    out += [{"lens": [3, 0, 7, 1, 0, 0, 12, 2, 5, 0, 9, 4, 1, 33, 0, 2], "dt1": dt} for dt in ("int64", "uint8", "float32")]      # one larger array (16 rows, 79 cells)
    return out


def cases(shard, tier):
    lens, dt1 = shard["lens"], shard["dt1"]
    pats = (1,) if tier == "quick" else (1, 2)
    for u in UNARY:
        yield [lens, dt1, None, u, "unary", "R", 0]
    for op in UNARY_OPS:
        yield [lens, dt1, None, op, "unary_op", "R", 0]
    for dt2 in dsl.DTYPES:
        for p in pats:
            for u in BINARY:
                yield [lens, dt1, dt2, u, "ragged_same", "R", p]
                for side in "LR":
                    yield [lens, dt1, dt2, u, "npscalar", side, p]
                    yield [lens, dt1, dt2, u, "zerod", side, p]
                    yield [lens, dt1, dt2, u, "col_nd", side, p]
        if dt2 in ("int64", "float64", "bool"):
            for op in OPERATORS:
                yield [lens, dt1, dt2, op, "op_ragged", "R", 1]
                yield [lens, dt1, dt2, op, "op_col", "L", 1]
                yield [lens, dt1, dt2, op, "op_col", "R", 1]
    for u in BINARY:
        for side in "LR":
            for k in PYSCALARS:
                yield [lens, dt1, None, u, k, side, 0]
            for k in ("int64", "float64", "bool"):
                yield [lens, dt1, k, u, "col_list", side, 1]
    for op in OPERATORS:
        for side in "LR":
            yield [lens, dt1, None, op, "op_pyint", side, 0]
    if dt1 in ("bool", "int8", "int64", "uint8", "float64") or tier == "thorough":
        for k in range(len(SALPHA)):
            for side in "LR":
                for u in BINARY:
                    yield [lens, dt1, None, u, "salpha", side, k]
                for op in ("**", "*", "+", "//", "&", "<"):
                    yield [lens, dt1, None, op, "op_salpha", side, k]
    if dt1 in ("float64", "float32"):
        # NaN cells under the six comparisons, operator and ufunc spelling (x >= y is not "not x < y" there)
        for op in ("<", "<=", "==", "!=", ">", ">="):
            for variant in ("scalar", "ragged", "column"):
                for side in "LR":
                    yield [lens, dt1, None, op, "nan_cmp", side, variant]
    for bad in ("diff_same_total", "diff_total", "diff_rows"):
        for u in ("add", "less", "logical_and", "maximum"):
            yield [lens, dt1, dt1, u, bad, "R", 1]


def _other_flat(dt2, size, p, u):
    v = dsl.pattern(dt2, size, p)
    if u in ("left_shift",) and v.dtype.kind in "iu":
        v = (np.abs(v.astype(np.int64)) % 8).astype(v.dtype)
    return v


NAN_UFUNC = {"<": "less", "<=": "less_equal", "==": "equal", "!=": "not_equal", ">": "greater", ">=": "greater_equal"}


def _check_nan_cmp(case, acc):
    from npstructures import RaggedArray
    lens, dt1, _, op, _, side, variant = case
    n, size = len(lens), sum(lens)
    acc.feature("nan_comparisons")
    flat = np.array(([1.5, float("nan"), 0.25, -2.0, float("nan"), 4.0, 1.0, float("nan")] * (size // 8 + 1))[:size], dtype=dt1)
    rows = dsl.split_rows(flat, lens)
    if variant == "scalar":
        other, orows = 1.0, [1.0] * n
    elif variant == "ragged":
        of = np.array(([1.5, 1.0, float("nan"), -2.0, float("nan"), 0.0, 2.0, 1.0] * (size // 8 + 1))[:size], dtype=dt1)
        other, orows = RaggedArray(of.copy(), list(lens)), dsl.split_rows(of, lens)
    else:
        cv = np.array(([1.0, float("nan"), -2.0, 4.0] * (n // 4 + 1))[:n], dtype=dt1)
        other, orows = cv[:, None].copy(), [cv[i] for i in range(n)]
    if size:
        acc.nontrivial()
    for spelling, f in (("operator", OPERATORS[op]), ("ufunc", getattr(np, NAN_UFUNC[op]))):
        args = (lambda x, o: (x, o)) if side == "R" else (lambda x, o: (o, x))
        with np.errstate(all="ignore"):
            exp = R([f(*args(rows[i], orows[i])) for i in range(n)], dtype="bool")
        obs = observe(lambda: f(*args(RaggedArray(flat.copy(), list(lens)), other)), dt=True)
        acc.trans()
        acc.outcome(obs)
        if obs != exp:
            acc.fail("wrong-values" if not is_refused(obs) else "valid-operands-refused", exp, obs, note=spelling)


def check(case, acc):
    from npstructures import RaggedArray
    lens, dt1, dt2, u, kind, side, p = case
    if kind == "nan_cmp":
        return _check_nan_cmp(case, acc)
    n, size = len(lens), sum(lens)
    if n == 0:
        acc.feature("zero_rows")
    if 0 in lens:
        acc.feature("empty_row")
    flat = dsl.pattern(dt1, size, 0)
    rows = dsl.split_rows(flat, lens)
    ra = RaggedArray(flat.copy(), list(lens))
    is_op = kind.startswith("op_") or kind == "unary_op"
    salpha = kind in ("salpha", "op_salpha")
    if is_op:
        acc.feature("operator_form")
        f = UNARY_OPS[u] if kind == "unary_op" else OPERATORS[u]
        uname = u
    else:
        f = getattr(np, u)
        uname = u
    fk = np.dtype(dt1).kind
    # ---- build the second operand, the per-row reference operands and the flat reference operand
    other = other_rows = other_flat = None
    must_refuse = False
    if kind in ("unary", "unary_op"):
        acc.feature("unary")
        args = lambda x, o: (x,)
    else:
        args = (lambda x, o: (x, o)) if side == "R" else (lambda x, o: (o, x))
        if kind in ("ragged_same", "op_ragged"):
            of = _other_flat(dt2, size, p, u)
            other = RaggedArray(of.copy(), list(lens))
            other_rows = dsl.split_rows(of, lens)
            other_flat = of
        elif kind in ("diff_same_total", "diff_total", "diff_rows"):
            l2 = list(lens)
            if kind == "diff_same_total":
                j = next((i for i, l in enumerate(l2) if l > 0), None)
                if j is None or len(l2) < 2:
                    return acc.undefined()
                l2[j] -= 1
                l2[(j + 1) % len(l2)] += 1
            elif kind == "diff_total":
                if not l2:
                    return acc.undefined()
                l2[-1] += 1
            else:
                l2 = l2 + [1]
            other = RaggedArray(_other_flat(dt2, sum(l2), p, u), l2)
            must_refuse = True
            acc.feature("must_refuse_shape")
        elif kind in PYSCALARS or kind == "op_pyint":
            other = PYSCALARS.get(kind, 3)
            other_rows = [other] * n
            other_flat = other
            if side == "L":
                acc.feature("scalar_left")
        elif salpha:
            other = SALPHA[p]
            other_rows = [other] * n
            other_flat = other
            acc.feature("scalar_alphabet")
            if side == "L":
                acc.feature("scalar_left")
        elif kind in ("npscalar", "zerod"):
            sv = dsl.pattern(dt2, 3, 0)[1]
            if u == "left_shift" and sv.dtype.kind in "iu":
                sv = sv.dtype.type(abs(int(sv)) % 8)
            other = sv if kind == "npscalar" else np.array(sv)
            other_rows = [other] * n
            other_flat = other
            if side == "L":
                acc.feature("scalar_left")
        elif kind in ("col_nd", "op_col", "col_list"):
            cv = _other_flat(dt2, n, p if kind != "col_list" else 0, u)
            if cv.dtype.kind in "iuf" and n and cv.dtype.kind != "u" and (cv < 0).any():
                acc.feature("sign_bit_column")
            other = cv[:, None].copy()
            if kind == "col_list":
                if n == 0:
                    return acc.undefined()
                other = other.tolist()
                cv = np.array(other)[:, 0] if n else cv
            other_rows = [cv[i] for i in range(n)]
            other_flat = np.repeat(cv, lens) if n else cv[:0]
            acc.feature("column_left" if side == "L" else "column_right")
        else:
            raise ValueError(kind)
    # ---- undefined territory
    ok2 = np.dtype(dt2).kind if dt2 else None
    if salpha:
        if u in ("left_shift",) and (isinstance(other, (float, np.floating)) or other < 0 or side == "L"):
            return acc.undefined()
    elif (not is_op and u in FLOAT_EXCLUDED and ("f" in (fk, ok2) or kind == "pyfloat")) or \
            (is_op and u in ("**", "//") and ("f" in (fk, ok2))):
        return acc.undefined()
    if uname in ("left_shift",) and flat.dtype.kind in "iu" and side == "L" and kind != "ragged_same":
        if (np.asarray(flat).astype(np.int64) < 0).any() or (np.asarray(flat).astype(np.int64) > 7).any():
            return acc.undefined()      # the ragged array is the shift count here
    if uname == "left_shift" and isinstance(other_flat, (int, float)) is False and other_flat is not None \
            and np.asarray(other_flat).dtype.kind == "f":
        pass
    if must_refuse:
        acc.nontrivial()
        obs = observe(lambda: f(*args(ra, other)))
        acc.trans()
        acc.outcome(obs)
        if not is_refused(obs):
            acc.fail("different-row-lengths-combined", "refused", obs)
        return
    # reference: numpy on flat operands (for the dtype and for definedness), then row by row
    try:
        with np.errstate(all="ignore"):
            # ndarray.__pow__ has scalar-exponent shortcuts of its own (x ** 2 -> np.square, bool ** 2 is int8 where np.power gives
            # int64); the property speaks of the ufunc, so the reference for the operator ** is np.power
            g = np.power if (is_op and u == "**") else f
            ref_flat = g(*args(flat, other_flat))
            ref_rows = [g(*args(rows[i], other_rows[i] if other_rows is not None else None)) for i in range(n)]
    except Exception:  # noqa: BLE001  numpy refuses the reference computation
        acc.feature("undefined_reference")
        return acc.undefined()
    if not isinstance(ref_flat, np.ndarray):
        return acc.undefined()
    if salpha and (norm(np.concatenate(ref_rows) if n else ref_flat[:0], dt=True) != norm(ref_flat, dt=True)):
        return acc.undefined()      # numpy itself answers differently for the rows and for the flat buffer (float pow / floor_divide loops)
    exp = R(ref_rows, dtype=str(ref_flat.dtype))
    if size:
        acc.nontrivial()
    before_other = norm(other, dt=True) if other is not None and not isinstance(other, (int, float, bool, np.generic)) else None
    obs = observe(lambda: f(*args(ra, other)), dt=True)
    acc.trans()
    acc.state(obs)
    acc.outcome(obs)
    if obs != exp:
        if is_refused(obs):
            bad = "valid-operands-refused"
        elif obs[0] == "R" and obs[2] == exp[2]:
            bad = "wrong-result-dtype"
        else:
            bad = "wrong-values"
        acc.fail(bad, exp, obs, classifier=_classify(case, bad))
    if observe(lambda: ra, dt=True) != R(rows, dtype=str(flat.dtype)):
        acc.fail("ragged-operand-modified", R(rows, dtype=str(flat.dtype)), observe(lambda: ra, dt=True))
    if before_other is not None and norm(other, dt=True) != before_other:
        acc.fail("other-operand-modified", before_other, norm(other, dt=True))


def _classify(case, bad):
    lens, dt1, dt2, u, kind, side, p = case
    if kind in PYSCALARS or kind == "op_pyint" or (kind in ("salpha", "op_salpha") and not isinstance(SALPHA[p], np.generic)):
        return "c04.python-scalar-operand-promoted-to-64-bit"
    if kind == "npscalar" and dt2 == "bool" and bad == "valid-operands-refused":
        return "c04.numpy-bool-scalar-refused"
    return None
