"""C05 -- row reductions equal numpy's per-row reductions, empty rows included (Mode I)."""
import math
import numpy as np
from mc import dsl
from mc.norm import tap_array, attempt, is_refused, pyval

PROP = "C05"
RULE = ("cases = (row-length vector, dtype, value pattern, reduction, calling form), enumerated completely; oracle = numpy on "
        "each row alone (the identity for an empty row); for max/min/mean/argmax/argmin only non-empty rows are compared and, "
        "when some row is empty, refusing is accepted as numpy refuses too; non-trivial = at least one row and one cell")
ASSUMPTIONS = ["numpy on one row is the reference, incl. numpy's identity for an empty array of that dtype",
               "values only (the statement does not fix the result dtype); means within 2 ulp of the result dtype",
               "float values are dyadic, so sums and products are exact whatever the summation order; no NaN"]
REQUIRED_FEATURES = ["empty_row_first", "empty_row_last", "consecutive_empty_rows", "all_rows_empty", "zero_rows",
                     "keepdims", "axis_none", "ufunc_reduce", "undefined_reference", "arg_reduction", "float_inf_pattern", "float_nan_pattern", "same_object_sequence", "integer_sum_beyond_64_bit", "product_wraps_to_zero"]
BOUNDS = {"quick": "LV(4,3) x 9 dtypes x 2 patterns x {sum,prod,any,all,max,min,mean,argmax,argmin} x {method axis=-1, np.f axis=-1, "
                   "axis=1, keepdims, axis=None} + ufunc.reduce for add, multiply, logical_and/or/xor, bitwise_and/or/xor, maximum, minimum; value patterns cancel / +-inf / decimal / NaN; axis=1 spellings; same-object sequences of 13 reductions (contiguous and pending view); one 16-row array",
          "thorough": "LV(5,3) u LV(3,5), 3 patterns"}
NAMED = ["sum", "prod", "any", "all", "max", "min", "mean", "argmax", "argmin"]
NEEDS_NONEMPTY = {"max", "min", "mean", "argmax", "argmin", "maximum", "minimum"}
UFUNCS = ["add", "multiply", "logical_and", "logical_or", "logical_xor", "bitwise_and", "bitwise_or", "bitwise_xor", "maximum", "minimum"]
FORMS = ["method", "func", "axis1", "keepdims", "axis1_keepdims", "func_keepdims", "none"]


def shards(tier):
    if tier == "quick":
        vs = list(dsl.lens_vectors(4, 3))
    else:
        vs = list(dsl.lens_vectors(5, 3)) + [v for v in dsl.lens_vectors(3, 5) if max(v, default=0) > 3]
    return [{"lens": v} for v in vs] + [{"lens": [3, 0, 7, 1, 0, 0, 12, 2, 5, 0, 9, 4, 1, 33, 0, 2]}]        # + one larger array (16 rows, 79 cells)


def cases(shard, tier):
    lens = shard["lens"]
    for dt in dsl.DTYPES:
        for k in range(2 if tier == "quick" else 3):
            for op in NAMED:
                for form in FORMS:
                    yield [lens, dt, k, op, form]
            for u in UFUNCS:
                yield [lens, dt, k, u, "reduce"]
                yield [lens, dt, k, u, "reduce_keepdims"]
                if k == 0:
                    yield [lens, dt, k, u, "reduce_axis1"]
        if np.dtype(dt).kind in "if":
            # rows whose non-zero entries cancel ([1, -1], [2, -2, 0]): "some entry is non-zero" is not "the sum is non-zero"
            for op in ("any", "all", "sum", "max", "argmax"):
                for form in ("method", "func"):
                    yield [lens, dt, "cancel", op, form]
            yield [lens, dt, "cancel", "logical_or", "reduce"]
        if dt in ("float32", "float64"):
            # +-inf (exact and order-independent inside a row): a row's result must not depend on the rows before it
            for op in ("sum", "prod", "max", "min", "mean", "any", "argmax", "argmin"):
                for form in ("method", "keepdims", "none"):
                    yield [lens, dt, "inf", op, form]
            yield [lens, dt, "inf", "add", "reduce"]
            # NaN: propagates through sum/prod/max/min/mean, counts as True, and is the arg-extreme where it occurs first
            for op in ("sum", "prod", "max", "min", "mean", "any", "all", "argmax", "argmin"):
                for form in ("method", "func", "none"):
                    yield [lens, dt, "nan", op, form]
            yield [lens, dt, "nan", "maximum", "reduce"]
            yield [lens, dt, "nan", "minimum", "reduce"]
            # decimal fractions: only for reductions that SELECT an element / an index (their result is exact whatever the values)
            for op in ("max", "min", "argmax", "argmin"):
                for form in ("method", "func"):
                    yield [lens, dt, "dec", op, form]
        if dt in ("int64", "float64"):
            # all-nonzero rows whose PRODUCT is zero in the element type (65536**4 wraps, (2**-600)**2 underflows)
            for op in ("all", "any", "prod"):
                for form in ("method", "func"):
                    yield [lens, dt, "zeroprod", op, form]
        if dt in ("int64", "uint64"):
            # equal powers of two: each row's SUM leaves the 64-bit range although every element and the mean fit (and the float64 reference is exact)
            for form in ("method", "func", "keepdims", "none"):
                yield [lens, dt, "pow2", "mean", form]
        if dt in ("int64", "float64", "bool"):
            # one object asked again and again (contiguous, and as a selection nothing has read yet)
            yield [lens, dt, 0, "seq", "contig"]
            for vk in ("view", "view_perm", "view_colrev", "view_colstep"):
                yield [lens, dt, 1, "seq", vk]


def _close(a, b, dts):
    if a == b:
        return True
    if isinstance(a, str) or isinstance(b, str):
        return False
    try:
        eps = float(np.finfo(np.dtype(dts) if np.dtype(dts).kind == "f" else np.float64).eps)
        return abs(a - b) <= 2 * eps * max(abs(a), abs(b))
    except Exception:  # noqa: BLE001
        return False


def check(case, acc):
    from npstructures import RaggedArray
    lens, dt, k, op, form = case
    n, size = len(lens), sum(lens)
    if n == 0:
        acc.feature("zero_rows")
    else:
        if lens[0] == 0:
            acc.feature("empty_row_first")
        if lens[-1] == 0:
            acc.feature("empty_row_last")
        if any(a == 0 and b == 0 for a, b in zip(lens, lens[1:])):
            acc.feature("consecutive_empty_rows")
        if size == 0:
            acc.feature("all_rows_empty")
    if k == "cancel":
        flat = np.array(([1, -1, 2, -2, 0, 0, 3, -3] * (size // 8 + 1))[:size], dtype=dt)
    elif k == "dec":
        flat = np.array(([0.7, 0.3, 0.9, 0.1, 1e17, -0.2, 2.6, 1e-9] * (size // 8 + 1))[:size], dtype=dt)
    elif k == "inf":
        acc.feature("float_inf_pattern")
        flat = np.array(([1.5, float("inf"), 0.25, -2.0, 4.0, float("-inf"), 0.5, 3.0] * (size // 8 + 1))[:size], dtype=dt)
    elif k == "zeroprod":
        acc.feature("product_wraps_to_zero")
        flat = np.full(size, 65536 if dt == "int64" else 2.0 ** -600, dtype=dt)
    elif k == "pow2":
        acc.feature("integer_sum_beyond_64_bit")
        flat = np.full(size, 2 ** 62 if dt == "int64" else 2 ** 63, dtype=dt)
    elif k == "nan":
        acc.feature("float_nan_pattern")
        flat = np.array(([1.5, float("nan"), 0.25, -2.0, 4.0, 0.5, float("nan"), 3.0] * (size // 8 + 1))[:size], dtype=dt)
    else:
        flat = dsl.pattern(dt, size, k)
    if op in ("mean", "seq") and dt in ("int64", "uint64") and k != "pow2":
        # the mean is computed in float64: keep |values| < 2**53 so the reference itself is exact
        flat = (flat.astype(np.float64) % 1000).astype(flat.dtype)
    rows = dsl.split_rows(flat, lens)
    if op == "seq":
        return _check_seq(acc, case, flat, rows)
    ra = RaggedArray(flat.copy(), list(lens))
    if op in ("argmax", "argmin"):
        acc.feature("arg_reduction")
    if form.startswith("reduce"):
        acc.feature("ufunc_reduce")
        u = getattr(np, op)
        ref = lambda r: u.reduce(r)
        if form == "reduce":
            call = lambda: u.reduce(ra, axis=-1)
        elif form == "reduce_axis1":
            call = lambda: u.reduce(ra, axis=1)
        else:
            acc.feature("keepdims")
            call = lambda: u.reduce(ra, axis=-1, keepdims=True)
    else:
        npf = getattr(np, op)
        ref = lambda r: npf(r)
        if form == "method":
            call = lambda: getattr(ra, op)(axis=-1)
        elif form == "func":
            call = lambda: npf(ra, axis=-1)
        elif form == "axis1":
            call = lambda: getattr(ra, op)(axis=1)
        elif form == "keepdims":
            acc.feature("keepdims")
            call = lambda: getattr(ra, op)(axis=-1, keepdims=True)
        elif form == "axis1_keepdims":
            acc.feature("keepdims")
            call = lambda: getattr(ra, op)(axis=1, keepdims=True)
        elif form == "func_keepdims":
            acc.feature("keepdims")
            call = lambda: npf(ra, axis=-1, keepdims=True)
        else:
            acc.feature("axis_none")
            call = lambda: npf(ra)
    needs = op in NEEDS_NONEMPTY
    # ---- reference
    with np.errstate(all="ignore"):
        if form == "none":
            try:
                exp_all = pyval(ref(flat))
            except Exception:  # noqa: BLE001  (e.g. max of an empty array)
                acc.feature("undefined_reference")
                return acc.undefined()
        else:
            exp_rows = []
            for r in ([] if needs else [flat[:0]]) + rows:      # flat[:0]: is the dtype/ufunc pair supported at all?
                if needs and len(r) == 0:
                    exp_rows.append(None)
                    continue
                try:
                    exp_rows.append(pyval(ref(r)))
                except Exception:  # noqa: BLE001  numpy has no such loop (bitwise on floats ...)
                    acc.feature("undefined_reference")
                    return acc.undefined()
    if form != "none" and not needs:
        exp_rows = exp_rows[1:]
    if n and size:
        acc.nontrivial()

    def run():
        r = call()
        if form != "none":
            tap_array(r)        # C19: the element dtype of every row-reduction result (data-valued, or a position) is compared across configurations
        if form == "none":
            return ("S", pyval(r if not isinstance(r, np.ndarray) else r[()]))
        a = np.asarray(r)
        return ("A", tuple(a.shape), tuple(pyval(x) for x in a.ravel()))
    obs = attempt(run)
    acc.trans()
    acc.state((tuple(lens), dt, k, obs))
    acc.outcome(obs)
    dts = str(flat.dtype)
    if form == "none":
        if is_refused(obs):
            acc.fail("refused", ("S", exp_all), obs, classifier=_classify(case, lens))
        elif not (_close(obs[1], exp_all, dts) if op == "mean" else obs[1] == exp_all):
            acc.fail("wrong-total", ("S", exp_all), obs)
        return
    may_refuse = needs and (n == 0 or any(l == 0 for l in lens))   # no non-empty row to speak about / numpy refuses too
    if is_refused(obs):
        if not may_refuse:
            acc.fail("refused", exp_rows, obs, classifier=_classify(case, lens))
        return
    want_shape = (n, 1) if form in ("keepdims", "axis1_keepdims", "func_keepdims", "reduce_keepdims") else (n,)
    # ufunc.reduce(..., keepdims=True): only the numbers are demanded (the keepdims wrapper the statement
    # refers to belongs to the named reductions; the raw reduce method returns the same numbers flat)
    if obs[1] != want_shape and not (form == "reduce_keepdims" and obs[1] == (n,)):
        acc.fail("wrong-shape", (want_shape, exp_rows), obs, classifier=_classify(case, lens))
        return
    for i, (e, o) in enumerate(zip(exp_rows, obs[2])):
        if e is None:
            continue
        if not (_close(o, e, dts) if op == "mean" else o == e):
            acc.fail("wrong-row-result" if lens[i] else "wrong-identity-for-empty-row", exp_rows, obs, classifier=_classify(case, lens),
                     note=f"row {i}")
            return


def _classify(case, lens):
    op = case[3]
    if op == "bitwise_and":
        return "c05.bitwise_and-identity"
    if op in ("argmax", "argmin"):
        return "c05.argmax-argmin"
    return None


SEQ = ["sum", "max", "argmax", "any", "prod", "mean", "sum", "min", "argmin", "all", "max", "argmax", "sum"]


def _check_seq(acc, case, flat, rows):
    """the named reductions one after the other on ONE object, row-wise and total alternating; none may disturb a later one"""
    from npstructures import RaggedArray
    lens, dt, k, op, form = case
    acc.feature("same_object_sequence")
    if form.startswith("view"):
        from mc.checks.c09 import _pending_view
        ra = _pending_view(form[4:], [r.tolist() for r in rows], dt)
    else:
        ra = RaggedArray(flat.copy(), list(lens))
    if sum(lens):
        acc.nontrivial()
    has_empty = any(l == 0 for l in lens) or not lens
    for i, name in enumerate(SEQ):
        if name in NEEDS_NONEMPTY and has_empty:
            continue
        npf = getattr(np, name)
        with np.errstate(all="ignore"):
            exp = tuple(pyval(npf(r)) for r in rows)
            exp_all = pyval(npf(flat)) if name in ("sum", "any", "all") else None
        o = attempt(lambda: tuple(pyval(x) for x in np.asarray(getattr(ra, name)(axis=-1)).ravel()))
        acc.trans()
        acc.outcome((i, name, o))
        ok = (o == exp) if name != "mean" else (not is_refused(o) and len(o) == len(exp) and all(_close(a, b, str(flat.dtype)) for a, b in zip(o, exp)))
        if not ok:
            acc.fail("same-object-sequence", (i, name, exp), o)
            return
        if exp_all is not None:
            o = attempt(lambda: pyval(np.asarray(npf(ra))[()]))
            acc.trans()
            if o != exp_all:
                acc.fail("same-object-sequence", (i, name + " (no axis)", exp_all), o)
                return
    post = attempt(lambda: [[pyval(v) for v in r] for r in ra.tolist()])
    if post != [[pyval(v) for v in r] for r in rows]:
        acc.fail("operand-modified", [r.tolist() for r in rows], post)
