"""C06 -- a derived array behaves exactly like a freshly built equal array (Mode II: explicit-state BFS).

States: a RaggedArray reached from a base array by a chain of derivation operations, in product
with the reference model of the chain (list of rows).  Canonical form: mc/canon.py (hidden state
included).  Every transition replays the chain on fresh real objects and applies one more
operation; every new state is (a) compared with the model and (b) probed: each probe of the probe
alphabet is applied to a pristine replica of the state and to RaggedArray(model rows) built
fresh, and the two normalised observations must be identical.  Assignment probes also re-read
every array the state was derived from."""
import itertools
import numpy as np
from mc import dsl
from mc.canon import canon_ragged, shape_class
from mc.norm import observe, attempt, is_refused, norm
from mc.refmodel import ragged as M

PROP = "C06"
MERGE_STATES = True
TECHNIQUE = "explicit-state breadth-first search over derivation chains on the real code, state hashing incl. hidden view state, differential probe oracle"
RULE = ("states = canonical (model rows, implementation object incl. lazy-view state) reached by derivation chains up to the stated depth, "
        "deduplicated by hashing; transitions = derivation steps + probe executions, each replayed on fresh real objects; "
        "a state is non-trivial when the derived array is still a pending (unmaterialised) view or came out of an array function")
ASSUMPTIONS = ["the reference model of a chain: C02 list-of-rows indexing and numpy applied per row",
               "differential oracle: the same probe on RaggedArray(model rows) built fresh; exception types are not compared",
               "canonicalisation argument of DESIGN.md section 2.1 (nothing is abstracted, merging is sound)"]
REQUIRED_FEATURES = ["selection_of_selection", "neg_col_step_twice", "state_is_fresh_selection", "state_from_array_function",
                     "alias_chain", "assign_probe", "materialise_transition", "state_with_empty_row", "zero_row_state"]
BOUNDS = {"quick": "8 base arrays (empty row first/middle/last/none/all, one row, zero rows), all chains of depth <= 2 over the derivation "
                   "alphabet (~85 row selectors, ~190 (rows, column-slice) pairs, 10 ufunc/array-function steps, materialise), "
                   "~70 probes on every distinct state; probes with the derived array as the non-dispatching operand, out-of-range refusals, float columns, method forms, ragged_slice; list-of-bools selectors",
          "thorough": "12 base arrays at depth 3 (depth-3 expansion over the index alphabet) and all of LV(3,3) at depth 2"}

Q_BASES = [[2, 0, 3], [0, 2, 1], [1, 3, 0], [2, 1, 3], [0, 0], [3], [], [1, 0, 0, 2]]
T_BASES = Q_BASES + [[1, 1, 1], [0], [2, 2], [3, 0, 1]]
PPARTS_Q = 4
FOPS = [["add1"], ["neg"], ["mulcol"], ["cat"], ["sort"], ["cumsum"], ["diff"], ["where", 3], ["float"], ["mat"], ["astype_same"], ["cat1"]]
ALIAS_SELS = ("E", "T0", ["t", "E"])


def shards(tier):
    """one shard = (base array, slice of the probe alphabet): every shard of a base runs the same exact
    BFS (deduplicated by state hash); derivation transitions and the state invariant are checked and
    counted in probe-part 0 only, the probes of every distinct state are split over the parts"""
    out = []
    if tier == "quick":
        for b in Q_BASES:
            for p in range(PPARTS_Q):
                out.append({"base": b, "depth": 2, "ppart": p, "pof": PPARTS_Q})
    else:
        for b in T_BASES:
            for p in range(8):
                out.append({"base": b, "depth": 3, "ppart": p, "pof": 8})
        for b in dsl.lens_vectors(3, 3):
            if b not in T_BASES:
                out.append({"base": b, "depth": 2, "ppart": 0, "pof": 1})
    return out


# ---------------------------------------------------------------- alphabets
_B = (None, 1, -1, 2)
_S = (None, 2, -1, -2)


def row_ops(n):
    yield "E"
    yield "T0"
    yield ["t", "E"]
    for a in _B:
        for b in _B:
            for s in _S:
                yield ["s", a, b, s]
    yield ["l", []]
    if n:
        for l in ([0], [n - 1], [-1], [0, 0], [n - 1, 0], [0, -1]):
            yield ["l", l]
        yield ["a", [n - 1, 0]]
        yield ["l", [n]]              # out of range: must be refused, creates no state
    for t in itertools.product([0, 1], repeat=n):
        yield ["m", list(t)]
    if n:
        yield ["lb", [(i + 1) % 2 for i in range(n)]]     # a mask spelled as a plain list of bools


def pair_ops(n):
    rsel = [["s", None, None, None], ["s", 1, None, None], ["s", None, None, -1]]
    if n:
        rsel.append(["l", [n - 1, 0]])
        rsel.append(["m", [i % 2 for i in range(n)]])
        rsel.append(["lb", [(i + 1) % 2 for i in range(n)]])
    for rs in rsel:
        for a in _B:
            for b in _B:
                for s in _S:
                    if rs[0] != "s" and (a, b) not in ((None, None), (1, None), (None, -1), (-1, None), (1, 2)):
                        continue
                    yield ["t", rs, ["s", a, b, s]]
    yield ["t", "E", ["s", 1, None, None]]
    yield ["t", "E", ["s", None, None, -1]]


def deriv_ops(n, is_float, level=0):
    for s in row_ops(n):
        yield ["idx", s]
    for s in pair_ops(n):
        yield ["idx", s]
    if level == 0:
        for f in FOPS:
            if f[0] == "cumsum" and is_float:
                continue
            yield f


# ---------------------------------------------------------------- model and implementation steps
def model_step(rows, op):
    k = op[0]
    if k == "idx":
        lens = [len(r) for r in rows]
        kind, coords, alias = M.index_coords(lens, dsl.dec(op[1]))
        assert kind == "ragged"
        return [[rows[r][c] for (r, c) in row] for row in coords]
    if k == "add1":
        return [[v + 1 for v in r] for r in rows]
    if k == "neg":
        return [[-v for v in r] for r in rows]
    if k == "mulcol":
        return [[v * (i + 1) for v in r] for i, r in enumerate(rows)]
    if k == "cat":
        return [list(r) for r in rows] + [list(r) for r in rows]
    if k == "sort":
        return [sorted(r) for r in rows]
    if k == "cumsum":
        return [list(itertools.accumulate(r)) for r in rows]
    if k == "diff":
        return [[b - a for a, b in zip(r, r[1:])] for r in rows]
    if k == "where":
        return [[v if v > op[1] else -v for v in r] for r in rows]
    if k == "float":
        return [[float(v) for v in r] for r in rows]
    if k in ("mat", "astype_same", "cat1"):
        return [list(r) for r in rows]
    raise ValueError(op)


def impl_step(x, op):
    k = op[0]
    if k == "idx":
        return x[dsl.dec(op[1])]
    if k == "add1":
        return x + 1
    if k == "neg":
        return -x
    if k == "mulcol":
        return x * np.arange(1, len(x) + 1)[:, None]
    if k == "cat":
        return np.concatenate([x, x])
    if k == "sort":
        return x.sort(axis=-1)
    if k == "cumsum":
        return np.cumsum(x, axis=-1)
    if k == "diff":
        return np.diff(x, axis=-1)
    if k == "where":
        return np.where(x > op[1], x, -x)
    if k == "float":
        return x.astype(float)
    if k == "mat":
        x.tolist()
        return x
    if k == "astype_same":
        return x.astype(x.dtype)
    if k == "cat1":
        return np.concatenate([x])
    raise ValueError(op)


def is_alias_op(op):
    return op[0] == "mat" or (op[0] == "idx" and op[1] in ALIAS_SELS)


_TEMPLATES = {}


def fresh(rows, dtype):
    """a fresh real RaggedArray with fresh geometry.  RaggedShape(lengths) costs ~85us (np.pad); replicas are
    built thousands of times, so the geometry is rebuilt from a copy of a template's stored form through the
    public RaggedShape.to_dict / from_dict pair (C01 checks that pair); nothing is shared between replicas."""
    from npstructures import RaggedArray, RaggedShape
    lens = tuple(len(r) for r in rows)
    flat = np.array([v for r in rows for v in r], dtype=dtype)
    try:
        t = _TEMPLATES.get(lens)
        if t is None:
            t = _TEMPLATES[lens] = {k: np.array(v) for k, v in RaggedShape(list(lens)).to_dict().items()}
        shape = RaggedShape.from_dict({k: v.copy() for k, v in t.items()})
        return RaggedArray(flat, shape)
    except Exception:  # noqa: BLE001  (refactored tree: use the plain constructor)
        return RaggedArray(flat, list(lens))


def build_impl(base, chain):
    """replay a chain on fresh real objects (implementation side only) -> [a, x1..xk]"""
    objs = [fresh(dsl.distinct_rows(base), np.int64)]
    for op in chain:
        objs.append(impl_step(objs[-1], op))
    return objs


def build(base, chain):
    """replay a chain on fresh real objects -> (objects [a, x1..xk], models [rows0..rowsk])"""
    models = [dsl.distinct_rows(base)]
    for op in chain:
        models.append(model_step(models[-1], op))
    return build_impl(base, chain), models


# ---------------------------------------------------------------- probes
def _col(x):
    return np.arange(1, len(x) + 1)[:, None]


def _fcol(x):
    """a float column with values on which only an exact (bit-pattern) broadcast is row-independent"""
    base = [float("inf"), 1.0, 1e17, -2.5, 0.7, float("-inf"), 3.0, 0.1]
    return np.array([base[i % 8] for i in range(len(x))], dtype=np.float64)[:, None]


def _mismatch(x):
    """a ragged operand with the same number of rows and cells but other row lengths (None if impossible)"""
    from npstructures import RaggedArray
    lens = [int(l) for l in x.lengths]
    j = next((i for i, l in enumerate(lens) if l > 0), None)
    if j is None or len(lens) < 2:
        raise ValueError("no mismatching shape exists")
    lens[j] -= 1
    lens[(j + 1) % len(lens)] += 1
    return RaggedArray(np.arange(sum(lens)), lens)


def _like(x, offset=100):
    """a freshly built ragged array with x's row lengths (built from the lengths only, x's data is not touched)"""
    from npstructures import RaggedArray
    lens = [int(l) for l in x.lengths]
    return RaggedArray(np.arange(offset, offset + sum(lens)), lens)


def _pair_index(x):
    """x[rows, cols] with ndarray operands (negative entries included); the operands must come back unchanged"""
    n = len(x)
    ri = np.array([0, n - 1, 0][: max(1, min(3, n))]) if n else np.array([], dtype=int)
    ci = np.array([-1, 0, 0][: len(ri)])
    r = x[ri, ci]
    return (r, ri.tolist(), ci.tolist())


def _indep_mask(x):
    """a boolean ragged mask built WITHOUT touching x's data (only its row lengths)"""
    from npstructures import RaggedArray
    lens = [int(l) for l in x.lengths]
    return RaggedArray(np.arange(sum(lens)) % 2 == 0, lens)


READ_PROBES = [
    ("len", lambda x: len(x)), ("size", lambda x: x.size), ("lengths", lambda x: np.asarray(x.lengths)),
    ("shape0", lambda x: x.shape[0]), ("tolist", lambda x: x), ("ravel", lambda x: x.ravel()), ("iter", lambda x: [np.asarray(r) for r in x]),
    ("dtype", lambda x: str(x.dtype)), ("repr", lambda x: (repr(x), str(x))[0][:0]),
    ("x[0]", lambda x: x[0]), ("x[-1]", lambda x: x[-1]), ("x[1]", lambda x: x[1]),
    ("x[np.int64(0)]", lambda x: x[np.int64(0)]),
    ("x[0:1]", lambda x: x[0:1]), ("x[::-1]", lambda x: x[::-1]), ("x[[0]]", lambda x: x[[0]]),
    ("x[mask]", lambda x: x[np.arange(len(x)) % 2 == 0]),
    ("x[:, 0:1]", lambda x: x[:, 0:1]), ("x[:, ::-1]", lambda x: x[:, ::-1]), ("x[:, -1:]", lambda x: x[:, -1:]), ("x[:, 1::2]", lambda x: x[:, 1::2]),
    ("x[1:, :-1]", lambda x: x[1:, :-1]), ("x[::-1, ::-2]", lambda x: x[::-1, ::-2]),
    ("x[0, 0]", lambda x: x[0, 0]), ("x[-1, -1]", lambda x: x[-1, -1]), ("x[0, 1:]", lambda x: x[0, 1:]), ("x[:, 0]", lambda x: x[:, 0]),
    ("x[:, 1]", lambda x: x[:, 1]), ("x[:, -2]", lambda x: x[:, -2]), ("x[1:, 1]", lambda x: x[1:, 1]), ("x[0, 1]", lambda x: x[0, 1]),
    ("x[indep-mask]", lambda x: x[_indep_mask(x)]), ("subset(indep-mask)", lambda x: x.subset(_indep_mask(x))),
    ("ragged_slice", lambda x: __import__("npstructures").ragged_slice(x, np.minimum(1, np.asarray(x.lengths)), np.asarray(x.lengths))),
    ("ragged_slice-ends", lambda x: __import__("npstructures").ragged_slice(x, ends=np.full(len(x), -1))),
    ("x[0, 99]", lambda x: x[0, 99]), ("x[0, -99]", lambda x: x[0, -99]), ("x[99]", lambda x: x[99]), ("x[:, 99]", lambda x: x[:, 99]),
    ("x[[0], 99]", lambda x: x[[0], 99]), ("x[-1, -99]", lambda x: x[-1, -99]), ("x[ri, ci]", _pair_index),
    ("where(indep-mask, x, -1)", lambda x: np.where(_indep_mask(x), x, -1)), ("where(m, fresh, x)", lambda x: np.where(_indep_mask(x), _like(x), x)),
    ("where(m, x, fresh)", lambda x: np.where(_indep_mask(x), x, _like(x))), ("concat(fresh, x)", lambda x: np.concatenate([_like(x), x])),
    ("concat1(fresh, x)", lambda x: np.concatenate([_like(x), x], axis=-1)), ("fresh+x", lambda x: _like(x) + x), ("fresh[...]=x", lambda x: (lambda f: (f.__setitem__(Ellipsis, x), f)[1])(_like(x))),
    ("x[...]", lambda x: x[...]), ("x[()]", lambda x: x[()]), ("x[...][::-1]", lambda x: x[...][::-1]),
    ("x+1", lambda x: x + 1), ("x*col", lambda x: x * _col(x)), ("col-x", lambda x: _col(x) - x),
    ("x+x", lambda x: x + x), ("x*fcol", lambda x: x * _fcol(x)), ("fcol-x", lambda x: _fcol(x) - x), ("x+mismatch", lambda x: x + _mismatch(x)),
    ("(x+1)+mismatch", lambda x: (x + 1) + _mismatch(x)), ("(x+1)*fcol", lambda x: (x + 1) * _fcol(x)), ("x>2", lambda x: x > 2),
    ("sum-1", lambda x: x.sum(axis=-1)), ("sum0", lambda x: x.sum(axis=0)),
    ("np.sum0", lambda x: np.sum(x, axis=0)), ("sumNone", lambda x: x.sum()), ("max-1", lambda x: x.max(axis=-1)),
    ("mean-1", lambda x: x.mean(axis=-1)), ("mean0", lambda x: x.mean(axis=0)),
    ("any", lambda x: x.any(axis=-1)), 
    ("argmax", lambda x: x.argmax(axis=-1)), ("keepdims", lambda x: x.sum(axis=-1, keepdims=True)),
    ("add.reduce", lambda x: np.add.reduce(x, axis=-1)),
    ("cumsum", lambda x: np.cumsum(x, axis=-1)), ("x.cumsum", lambda x: x.cumsum(axis=-1)), ("x.nonzero()", lambda x: x.nonzero()),
    ("x.argmin", lambda x: x.argmin(axis=-1)), ("x.all", lambda x: x.all(axis=-1)), ("x.equals", lambda x: bool(x.equals(x + 0))),
    ("x.cumsum(None)", lambda x: x.cumsum()), 
    ("sort", lambda x: x.sort(axis=-1)), ("unique", lambda x: np.unique(x, axis=-1)),
    ("unique_counts", lambda x: np.unique(x, axis=-1, return_counts=True)), 
    ("nonzero_m", lambda x: (x > 2).nonzero()),
    ("concat0", lambda x: np.concatenate([x, x])), ("concat1", lambda x: np.concatenate([x, x], axis=-1)),
    ("zeros_like", lambda x: np.zeros_like(x)), ("where", lambda x: np.where(x > 2, x, 0)),
    ("padded", lambda x: x.as_padded_matrix()), ("padded_left", lambda x: x.as_padded_matrix(fill_value=-1, side="left")),
    ("get_column_values", lambda x: x.get_column_values(0)), ("col_counts", lambda x: x.col_counts()),
    ("astype", lambda x: x.astype(np.float32)), ("to_numpy_array", lambda x: x.to_numpy_array()),
    ("subset", lambda x: x.subset(x > 2)), ("x[x>2]", lambda x: x[x > 2]),
    ("twice", lambda x: (x.tolist(), x)[1]), ("size-then-list", lambda x: (x.size, x)[1]),
]


def _assign_0(x):
    x[0] = -7


def _assign_cols(x):
    x[:, 1:] = -8


def _assign_mask(x):
    x[np.arange(len(x)) % 2 == 1] = -9


def _assign_fill(x):
    x.fill(-6)


def _assign_ragged_mask(x):
    x[x > 2] = -5


def _assign_indep_mask(x):
    x[_indep_mask(x)] = -2


def _assign_col_int(x):
    x[:, 1] = -1


def _assign_cell(x):
    x[-1, -1] = -4


def _assign_rev(x):
    x[::-1, ::-1] = -3


ASSIGN_PROBES = [("x[0]=c", _assign_0), ("x[:,1:]=c", _assign_cols), ("x[mask]=c", _assign_mask), ("x.fill(c)", _assign_fill),
                 ("x[x>2]=c", _assign_ragged_mask), ("x[-1,-1]=c", _assign_cell), ("x[::-1,::-1]=c", _assign_rev),
                 ("x[indep-mask]=c", _assign_indep_mask), ("x[:,1]=c", _assign_col_int)]


# ---------------------------------------------------------------- the search
def _key(objs, models, chain=()):
    """product state: model rows + the model's alias relation to the base / the immediate parent + canonical implementation state"""
    x = objs[-1]
    scope = (objs[0],) + ((objs[-2],) if len(objs) > 2 else ())
    alias_base = bool(chain) and all(is_alias_op(op) for op in chain)
    alias_parent = bool(chain) and is_alias_op(chain[-1])
    return hash((repr(models[-1]), alias_base, alias_parent, canon_ragged(x, scope)))


def run_shard(shard, tier, acc):
    base, depth, ppart, pof = shard["base"], shard["depth"], shard["ppart"], shard["pof"]
    first = ppart == 0
    ctx = {"ppart": ppart, "pof": pof, "fresh_cache": {}}
    seen = set()
    objs, models = build(base, [])
    seen.add(_key(objs, models))
    acc.begin(["state", base, []])
    _visit_state(acc, base, [], ctx)
    frontier = [[]]
    for d in range(1, depth + 1):
        nxt = []
        for chain in frontier:
            objs, models = build(base, chain)
            n = len(models[-1])
            is_float = str(objs[-1].dtype).startswith("float")
            level = 0 if d <= 2 else 1
            for op in deriv_ops(n, is_float, level):
                new_chain = chain + [op]
                st = _transition(acc, base, new_chain, seen, check=first)
                if st == "new":
                    nxt.append(new_chain)
                    acc.begin(["state", base, new_chain])
                    _visit_state(acc, base, new_chain, ctx)
        frontier = nxt
    acc.extra[f"frontier_states_at_depth_{depth}"] += len(frontier) if first else 0


def _transition(acc, base, chain, seen, check=True):
    """replay chain[:-1], apply chain[-1] to implementation and model -> 'new' | 'seen' | 'refused' | 'bad'"""
    if check:
        acc.begin(["chain", base, chain])
    objs, models = build(base, chain[:-1])
    op = chain[-1]
    try:
        m2 = model_step(models[-1], op)
    except M.Refuse:
        m2 = None
    x2 = attempt(lambda: impl_step(objs[-1], op))
    if check:
        acc.trans()
    if m2 is None:
        # the model says this step must be refused; an implementation that accepts it must at least fail on reading
        if not is_refused(x2) and not is_refused(observe(lambda: x2)) and check:
            acc.fail("derivation-accepted-nonexistent-index", "refused", observe(lambda: x2))
        return "refused"
    if is_refused(x2):
        if check:
            acc.fail("derivation-refused", ("R", None, tuple(map(tuple, m2))), x2, classifier=_classify(chain, None))
        return "bad"
    objs.append(x2)
    models.append(m2)
    k = _key(objs, models, chain)
    if k in seen:
        return "seen"
    seen.add(k)
    if check:
        acc.state(k)
    return "new"


def _features(acc, chain, objs, models):
    """coverage features.  The ones the vacuity guard relies on are functions of the chain (black box); the
    ones read from hidden attributes are informational only and are skipped on a tree where they do not exist."""
    idx_ops = [op for op in chain if op[0] == "idx" and op[1] not in ALIAS_SELS]
    last_two_idx = len(chain) >= 2 and all(op[0] == "idx" and op[1] not in ALIAS_SELS for op in chain[-2:])
    if last_two_idx:
        acc.feature("selection_of_selection")
        negs = [op for op in chain[-2:] if op[1][0] == "t" and op[1][2][0] == "s" and (op[1][2][3] or 1) < 0]
        if len(negs) == 2:
            acc.feature("neg_col_step_twice")
    if chain and chain[-1][0] == "idx" and chain[-1][1] not in ALIAS_SELS:
        acc.feature("state_is_fresh_selection")
    if chain and chain[-1][0] not in ("idx", "mat"):
        acc.feature("state_from_array_function")
    if chain and all(is_alias_op(op) for op in chain):
        acc.feature("alias_chain")
    if chain and chain[-1][0] == "mat":
        acc.feature("materialise_transition")
    if any(len(r) == 0 for r in models[-1]):
        acc.feature("state_with_empty_row")
    if len(models[-1]) == 0:
        acc.feature("zero_row_state")
    pending = bool(chain) and chain[-1][0] == "idx" and chain[-1][1] not in ALIAS_SELS
    try:
        x = objs[-1]
        acc.feature("hidden:state_" + shape_class(x))
        pending = shape_class(x) != "RaggedShape"
        if pending and (getattr(x._shape, "col_step", 1) or 1) < 0 and len(idx_ops) >= 2:
            acc.feature("hidden:neg_col_step_compounded")
    except Exception:  # noqa: BLE001
        pass
    if pending or (chain and chain[-1][0] not in ("idx", "mat")):
        acc.nontrivial()


def _fresh_obs(ctx, rows, dtype, name, f, assign):
    """observation of a probe on a freshly built array; depends only on (rows, dtype, probe), so it is
    computed once per shard and model content"""
    k = (repr(rows), str(dtype), name)
    c = ctx["fresh_cache"]
    if k not in c:
        if assign:
            fr = fresh(rows, dtype)
            r_f = attempt(lambda: f(fr))
            c[k] = (is_refused(r_f), observe(lambda: fr, dt=True))
        else:
            c[k] = observe(lambda: f(fresh(rows, dtype)), dt=True)
    return c[k]


def _visit_state(acc, base, chain, ctx=None):
    ctx = ctx or {"ppart": 0, "pof": 1, "fresh_cache": {}}
    ppart, pof = ctx["ppart"], ctx["pof"]
    objs, models = build(base, chain)
    rows = models[-1]
    dts = attempt(lambda: str(objs[-1].dtype))
    if ppart == 0:
        _features(acc, chain, objs, models)
        # (a) state invariant: the derived array has the model's content
        exp = ("R", None, tuple(tuple(r) for r in rows))
        obs = observe(lambda: build_impl(base, chain)[-1])
        acc.trans()
        acc.outcome(obs)
        if obs != exp:
            acc.fail("derived-content-differs-from-model", exp, obs, classifier=_classify(chain, "content"))
            return
    if is_refused(dts):
        return
    dtype = np.dtype(dts)
    # (b) read probes, each on a pristine replica, against the same probe on a fresh array
    for pi, (name, f) in enumerate(READ_PROBES):
        if pi % pof != ppart:
            continue
        o_d = observe(lambda: f(build_impl(base, chain)[-1]), dt=True)
        o_f = _fresh_obs(ctx, rows, dtype, name, f, False)
        acc.trans()
        acc.outcome((name, o_d))
        if o_d != o_f:
            acc.fail("probe-differs-from-fresh-array", (name, o_f), (name, o_d), classifier=_classify(chain, name), note=name)
    # (c) assignment probes: the derived array, a fresh one, and every array it was derived from
    for pi, (name, f) in enumerate(ASSIGN_PROBES):
        if pi % pof != ppart:
            continue
        acc.feature("assign_probe")
        objs, models = build(base, chain)
        x = objs[-1]
        r_d = attempt(lambda: f(x))
        o_d = observe(lambda: x, dt=True)
        f_refused, o_f = _fresh_obs(ctx, rows, dtype, name, f, True)
        acc.trans()
        acc.outcome((name, o_d))
        if is_refused(r_d) != f_refused or o_d != o_f:
            acc.fail("assignment-differs-from-fresh-array", (name, f_refused, o_f), (name, r_d, o_d), classifier=_classify(chain, name), note=name)
            continue
        # parents: aliases change identically, everything else is untouched
        k = len(objs) - 1
        alias = True
        for i in range(k - 1, -1, -1):
            alias = alias and is_alias_op(chain[i])
            if objs[i] is x:
                continue
            want = (o_d[0], None, o_d[2]) if (alias and not is_refused(o_d)) else ("R", None, tuple(tuple(r) for r in models[i]))
            got = observe(lambda: objs[i])
            if got != want:
                acc.fail("assignment-into-derived-array-altered-its-source" if not alias else "alias-did-not-follow-assignment",
                         (name, i, want), (name, i, got), classifier=_classify(chain, name), note=f"{name}; parent {i}")
                break


def check(case, acc):
    """replay of one recorded case: ['chain', base, chain] or ['state', base, chain]"""
    kind, base, chain = case
    if kind == "chain":
        _transition(acc, base, chain, set(), check=False)
        # re-run with checking on (acc.begin was already called by the replayer)
        objs, models = build(base, chain[:-1])
        try:
            m2 = model_step(models[-1], chain[-1])
        except M.Refuse:
            m2 = None
        x2 = attempt(lambda: impl_step(objs[-1], chain[-1]))
        if m2 is None:
            if not is_refused(x2) and not is_refused(observe(lambda: x2)):
                acc.fail("derivation-accepted-nonexistent-index", "refused", observe(lambda: x2))
        elif is_refused(x2):
            acc.fail("derivation-refused", ("R", None, tuple(map(tuple, m2))), x2, classifier=_classify(chain, None))
    else:
        _visit_state(acc, base, chain)


def _classify(chain, probe):
    return None
