"""C07 -- row-wise scans and reorderings equal numpy applied to each row (Mode I)."""
import numpy as np
from mc import dsl
from mc.norm import observe, is_refused, norm
from mc.checkutil import R

PROP = "C07"
RULE = ("cases = (row-length vector, dtype, value pattern, operation), enumerated completely; oracle = numpy applied to each row "
        "alone (values, row count, row order; empty rows stay empty); non-trivial = some row has >= 2 cells")
ASSUMPTIONS = ["numpy on one row is the reference (np.cumsum / ufunc.accumulate / np.sort / np.unique / np.diff)",
               "values only; no NaN (numpy's own NaN conventions for sort/unique are outside the statement)",
               "cumsum on bool / float input is documented as rejected by the library: refusal or the right answer are both accepted"]
REQUIRED_FEATURES = ["empty_row_first", "empty_row_last", "all_rows_empty", "zero_rows", "duplicates_across_row_boundary",
                     "diff_order_exceeds_row", "unique_counts", "accumulate", "same_object_sequence", "close_64bit_values", "infinite_values"]
BOUNDS = {"quick": "LV(4,3) x {bool,int8,int64,uint8,uint64,float64} x 3 patterns x {cumsum (method, function), add/subtract/xor.accumulate, "
                   "sort (method), unique, unique+counts, diff n=0..4}; operand unchanged; axis=1 spellings and defaults; 64-bit neighbours beyond 2**53 for sort / unique; same-object sequences of 12 operations (contiguous and pending view); named float inputs of the known finding",
          "thorough": "LV(5,3) u LV(3,5), plus int16/int32/float32, diff n=0..6"}
DT_Q = ["bool", "int8", "int64", "uint8", "uint64", "float64"]
OPS = ["cumsum_m", "cumsum_f", "add.acc", "sub.acc", "xor.acc", "sort_m", "sort_default", "sort_axis1", "cumsum_axis1", "unique", "unique_c", "unique_axis1",
       "diff_default", "diff_axis1", "add.acc_axis1", "diff_noaxis"]


def shards(tier):
    if tier == "quick":
        vs = list(dsl.lens_vectors(4, 3))
    else:
        vs = list(dsl.lens_vectors(5, 3)) + [v for v in dsl.lens_vectors(3, 5) if max(v, default=0) > 3]
    # + one larger array (16 rows, 79 cells), + the named float inputs of the known finding
    return [{"lens": v} for v in vs] + [{"lens": [3, 0, 7, 1, 0, 0, 12, 2, 5, 0, 9, 4, 1, 33, 0, 2]}] + [{"big": 1}]


BIG = {"inf": [1.0, float("inf"), 2.0, 3.0, 0.5], "1e16": [1e16, 1.0, 1.0, 2.0, 0.25]}
# 64-bit neighbours that float64 cannot tell apart, in descending order (sorting / de-duplicating through a float key leaves them as they are)
CLOSE64 = {"uint64": [2 ** 64 - 1, 2 ** 64 - 2, 2 ** 53 + 1, 2 ** 53, 5, 2 ** 64 - 1, 2 ** 63 + 1, 2 ** 63],
           "int64": [2 ** 63 - 1, 2 ** 63 - 2, 2 ** 53 + 1, 2 ** 53, -5, -2 ** 63 + 1, -2 ** 63, 2 ** 62 + 1]}


def cases(shard, tier):
    if "big" in shard:
        # named float inputs on which a scan computed through ONE global prefix sum cannot be row-independent
        for lens in ([2, 2], [1, 2], [1, 0, 2], [2, 3]):
            for k in ("inf", "1e16"):
                for dt in ("float64", "float32"):
                    for op in ("add.acc", "sub.acc"):
                        yield [lens, dt, k, op]
        return
    lens = shard["lens"]
    dts = DT_Q if tier == "quick" else DT_Q + ["int16", "int32", "float32"]
    nmax = 4 if tier == "quick" else 6
    for dt in dts:
        for k in range(3):
            for op in OPS:
                yield [lens, dt, k, op]
            for nd in range(nmax + 1):
                yield [lens, dt, k, f"diff{nd}"]
        if dt in CLOSE64:
            for op in ("sort_m", "sort_default", "unique", "unique_c"):
                yield [lens, dt, "close64", op]
        if dt == "float64":
            # +-inf (they sort beyond every finite padding value)
            for op in ("sort_m", "sort_default", "unique", "unique_c"):
                yield [lens, dt, "infs", op]
        if dt in ("int64", "uint8"):
            # one object asked again and again (contiguous, and as a selection nothing has read yet)
            yield [lens, dt, 0, "seq_contig"]
            for vk in ("", "_perm", "_colrev", "_colstep"):
                yield [lens, dt, 1, "seq_view" + vk]


def _op(acc, op, ra, dt, lens):
    """-> (numpy reference for one row, call on the ragged array, refusal accepted?)"""
    lenient_refusal = False
    if op in ("cumsum_m", "cumsum_f", "cumsum_axis1"):
        ref = lambda r: np.cumsum(r)
        call = {"cumsum_m": lambda: ra.cumsum(axis=-1), "cumsum_f": lambda: np.cumsum(ra, axis=-1), "cumsum_axis1": lambda: ra.cumsum(axis=1)}[op]
        lenient_refusal = np.dtype(dt).kind in "bf"
    elif op == "add.acc_axis1":
        acc.feature("accumulate")
        ref = lambda r: np.add.accumulate(r)
        call = lambda: np.add.accumulate(ra, axis=1)
    elif op == "diff_axis1":
        ref = lambda r: np.diff(r, n=2)
        call = lambda: np.diff(ra, n=2, axis=1)
    elif op.endswith(".acc"):
        acc.feature("accumulate")
        u = {"add.acc": np.add, "sub.acc": np.subtract, "xor.acc": np.bitwise_xor}[op]
        ref = lambda r: u.accumulate(r)
        call = lambda: u.accumulate(ra, axis=-1)
    elif op == "sort_m":
        ref = lambda r: np.sort(r)
        call = lambda: ra.sort(axis=-1)
    elif op == "sort_default":
        ref = lambda r: np.sort(r)
        call = lambda: ra.sort()
    elif op == "sort_axis1":
        ref = lambda r: np.sort(r)
        call = lambda: ra.sort(axis=1)
    elif op == "unique_axis1":
        ref = lambda r: np.unique(r)
        call = lambda: np.unique(ra, axis=1)
    elif op == "diff_noaxis":
        ref = lambda r: np.diff(r)
        call = lambda: np.diff(ra)          # numpy's own defaults: n=1, last axis
    elif op == "diff_default":
        ref = lambda r: np.diff(r)
        call = lambda: np.diff(ra, axis=-1)
    elif op == "unique":
        ref = lambda r: np.unique(r)
        call = lambda: np.unique(ra, axis=-1)
    elif op == "unique_c":
        acc.feature("unique_counts")
        ref = lambda r: np.unique(r, return_counts=True)
        call = lambda: np.unique(ra, axis=-1, return_counts=True)
    else:
        nd = int(op[4:])
        if lens and nd > min(lens):
            acc.feature("diff_order_exceeds_row")
        ref = lambda r: np.diff(r, n=nd)
        call = lambda: np.diff(ra, n=nd, axis=-1)
    return ref, call, lenient_refusal


def check(case, acc):
    from npstructures import RaggedArray
    lens, dt, k, op = case
    n, size = len(lens), sum(lens)
    if n == 0:
        acc.feature("zero_rows")
    else:
        if lens[0] == 0:
            acc.feature("empty_row_first")
        if lens[-1] == 0:
            acc.feature("empty_row_last")
        if size == 0:
            acc.feature("all_rows_empty")
    if k == "infs":
        acc.feature("infinite_values")
        flat = np.array(([float("inf"), 1.0, -2.5, float("-inf"), 4.0, float("inf"), 2.0, 0.5] * (size // 8 + 1))[:size], dtype=dt)
    elif k == "close64":
        acc.feature("close_64bit_values")
        flat = np.array((CLOSE64[dt] * (size // 8 + 1))[:size], dtype=dt)
    else:
        flat = dsl.pattern(dt, size, k) if not isinstance(k, str) else np.array(BIG[k][:size], dtype=dt)
    rows = dsl.split_rows(flat, lens)
    for a, b in zip(rows, rows[1:]):
        if len(a) and len(b) and a[-1] == b[0]:
            acc.feature("duplicates_across_row_boundary")
    ra = RaggedArray(flat.copy(), list(lens))
    if op.startswith("seq"):
        return _check_seq(acc, case, flat, rows)
    ref, call, lenient_refusal = _op(acc, op, ra, dt, lens)
    try:
        with np.errstate(all="ignore"):
            refs = [ref(flat[:0])] + [ref(r) for r in rows]
    except Exception:  # noqa: BLE001   numpy refuses (bool subtract, xor on floats ...)
        return acc.undefined()
    refs = refs[1:]
    if op == "unique_c":
        exp = ("T", (R([r[0] for r in refs]), R([r[1] for r in refs])))
    else:
        exp = R(refs)
    if any(l >= 2 for l in lens):
        acc.nontrivial()
    obs = observe(call)
    acc.trans()
    acc.state((tuple(lens), dt, k, obs))
    acc.outcome(obs)
    if is_refused(obs):
        if not lenient_refusal:
            acc.fail("refused", exp, obs, classifier=_classify(op, lens))
    elif obs != exp:
        cl = _classify(op, lens)
        if isinstance(k, str) and obs[0] == "R" and len(obs[2]) == len(lens) and obs[2][0] == exp[2][0]:
            cl = "c07.float-accumulate-through-global-prefix-sum"       # first row right, a later row poisoned by an earlier one
        acc.fail("wrong-rows", exp, obs, classifier=cl)
    post = observe(lambda: ra)
    if post != R(rows):
        acc.fail("operand-modified", R(rows), post)


def _classify(op, lens):
    if op.endswith(".acc") and lens and lens[-1] == 0:
        return "c07.accumulate-trailing-empty-row"
    return None


SEQ = ["sort_m", "unique", "cumsum_m", "diff1", "sort_m", "add.acc", "unique_c", "xor.acc", "cumsum_f", "diff2", "sort_default", "unique"]


def _check_seq(acc, case, flat, rows):
    """the operations one after the other on ONE object; none may disturb a later one (per-object caches, marks, in-place scratch)"""
    from npstructures import RaggedArray
    lens, dt, k, op = case
    acc.feature("same_object_sequence")
    if op.startswith("seq_view"):
        from mc.checks.c09 import _pending_view
        ra = _pending_view(op[len("seq_view"):], [r.tolist() for r in rows], dt)
    else:
        ra = RaggedArray(flat.copy(), list(lens))
    if any(l >= 2 for l in lens):
        acc.nontrivial()
    for i, name in enumerate(SEQ):
        ref, call, lenient = _op(acc, name, ra, dt, lens)
        try:
            with np.errstate(all="ignore"):
                refs = [ref(r) for r in rows]
        except Exception:  # noqa: BLE001
            continue
        exp = ("T", (R([r[0] for r in refs]), R([r[1] for r in refs]))) if name == "unique_c" else R(refs)
        obs = observe(call)
        acc.trans()
        acc.outcome((i, name, obs))
        if is_refused(obs) and lenient:
            continue
        if obs != exp:
            acc.fail("same-object-sequence", (i, name, exp), obs)
            return
    post = observe(lambda: ra)
    if post != R(rows):
        acc.fail("operand-modified", R(rows), post)
