"""C08 -- structural array functions preserve row structure and element order (Mode I)."""
import itertools
import numpy as np
from mc import dsl
from mc.norm import tap_array, observe, attempt, is_refused, norm
from mc.checkutil import R, A

PROP = "C08"
RULE = ("cases = operand tuples / (array, mask pattern) / (array, window vector), enumerated completely over LV(R,L); oracle = list "
        "operations on the model rows; non-trivial = at least one cell in the operands")
ASSUMPTIONS = ["oracle: list concatenation, list comprehension over mask cells in row-major order, Python slicing r[s:e]",
               "cells hold distinct integers so order and identity of cells are visible", "values and row structure only (no dtypes)"]
REQUIRED_FEATURES = ["zero_row_operand", "empty_row", "concat_axis1", "mask_all_false", "mask_all_true", "negative_end",
                     "empty_window", "end_before_start", "input_1d", "input_2d", "npsarray", "padded_left", "mixed_dtypes"]
BOUNDS = {"quick": "LV(3,3) (concatenate partners / windows of three-row arrays restricted to LV(3,2) resp. LV(2,3)): all ordered pairs for concatenate axis 0 / axis -1; *_like; padding both sides x 2 fill values; every boolean "
                   "mask pattern over the cells for nonzero / where / subset / mask indexing; every vector of per-row windows 0<=s<=len, 0<=e<=len (an end before the start: empty window) "
                   "and negative ends for ragged_slice on ragged, 2-D and 1-D (<=2 windows, n<=4) inputs and NPSArray[starts:ends]; windows with the end before the start; column-major / transposed 2-D inputs; mixed dtypes; held operands re-read",
          "thorough": "LV(3,3) u LV(4,2); concatenate triples over LV(2,2)"}


def _lv(tier):
    if tier == "quick":
        return list(dsl.lens_vectors(3, 2)) + [v for v in dsl.lens_vectors(3, 3) if max(v, default=0) == 3]
    return list(dsl.lens_vectors(3, 3)) + [v for v in dsl.lens_vectors(4, 2) if len(v) == 4]


def shards(tier):
    out = [{"lens": v} for v in _lv(tier)]
    out += [{"n1d": n} for n in range(0, 5)]
    if tier != "quick":
        out.append({"triples": 1})
    return out


def _windows(l):
    # every start and end inside the row, ends also counted from the row end; an end before the start is an empty window
    return [(s, e) for s in range(l + 1) for e in list(range(0, l + 1)) + [-k for k in range(1, l + 1)]]


def cases(shard, tier):
    if "n1d" in shard:
        n = shard["n1d"]
        w = _windows(n)
        for k in range(0, 3):
            for combo in itertools.product(w, repeat=k):
                yield ["rslice1d", n, [list(c) for c in combo]]
        return
    if "triples" in shard:
        lv = list(dsl.lens_vectors(2, 2))
        for a in lv:
            for b in lv:
                for c in lv:
                    yield ["concat0", [a, b, c]]
        return
    la = shard["lens"]
    for lb in (_lv(tier) if (tier != "quick" or max(la, default=0) <= 2) else list(dsl.lens_vectors(2, 3))):
        yield ["concat0", [la, lb]]
        if len(la) == len(lb):
            yield ["concat1", [la, lb]]
    yield ["concat0", [la]]
    for fn in ("zeros_like", "ones_like", "empty_like"):
        for dt in (None, "float64", "bool"):
            yield ["like", la, fn, dt]
    if la and max(la) > 0:
        for side in ("left", "right"):
            for fill in (0, -1, None):       # None: the default fill value (zero)
                yield ["padded", la, side, fill]
        yield ["padded", la, None, None]    # all defaults: zeros on the right
    size = sum(la)
    for bits in itertools.product([0, 1], repeat=size):
        yield ["mask", la, list(bits)]
    if la and (tier != "quick" or max(la) <= 2 or len(la) <= 2):
        for combo in itertools.product(*[_windows(l) for l in la]):
            yield ["rslice", la, [list(c) for c in combo]]
            if len(set(la)) == 1 and la[0] > 0:
                yield ["rslice2d", la, [list(c) for c in combo]]
        yield ["rslice_none", la, None]


def _ra(rows, dt=np.int64):
    from npstructures import RaggedArray
    return RaggedArray(np.array([e for r in rows for e in r], dtype=dt), [len(r) for r in rows])


def _cmp(acc, name, exp, obs):
    acc.trans()
    acc.state((name, obs))
    acc.outcome((name, obs))
    if obs != exp:
        acc.fail(name, exp, obs)


def check(case, acc):
    kind = case[0]
    if kind in ("concat0", "concat1"):
        ls = case[1]
        ops, off = [], 0
        for l in ls:
            ops.append([[x + off for x in r] for r in dsl.distinct_rows(l)])
            off += 100
            if len(l) == 0:
                acc.feature("zero_row_operand")
            if 0 in l:
                acc.feature("empty_row")
        if any(sum(l) for l in ls):
            acc.nontrivial()
        # mixed element types: the joined cells keep their values (numpy promotes; nothing is cast to the first operand's type)
        mixed = [(np.int64, 0), (np.float64, 0.5), (np.uint8, 0)] if len(ops) <= 3 else []
        if mixed and any(sum(l) for l in ls):
            acc.feature("mixed_dtypes")
            mops = [[[x + mixed[i % 3][1] for x in r] for r in o] for i, o in enumerate(ops)]
            mk = lambda: [_ra(o, mixed[i % 3][0]) for i, o in enumerate(mops)]
            if kind == "concat0":
                _cmp(acc, "concatenate(axis=0, mixed dtypes)", R([r for o in mops for r in o]), observe(lambda: np.concatenate(mk())))
            else:
                _cmp(acc, "concatenate(axis=-1, mixed dtypes)", R([sum(rs, []) for rs in zip(*mops)]), observe(lambda: np.concatenate(mk(), axis=-1)))
                _cmp(acc, "concatenate(axis=-1, mixed dtypes, reversed)", R([sum(rs, []) for rs in zip(*mops[::-1])]),
                     observe(lambda: np.concatenate(mk()[::-1], axis=-1)))
        if kind == "concat0":
            exp = R([r for o in ops for r in o])
            held = [_ra(o) for o in ops]
            _cmp(acc, "concatenate(axis=0)", exp, observe(lambda: np.concatenate(held)))
            for o, h in zip(ops, held):
                _cmp(acc, "operand after concatenate", R(o), observe(lambda: h))
        else:
            acc.feature("concat_axis1")
            exp = R([sum(rs, []) for rs in zip(*ops)])
            _cmp(acc, "concatenate(axis=-1)", exp, observe(lambda: np.concatenate([_ra(o) for o in ops], axis=-1)))
            _cmp(acc, "concatenate(axis=1)", exp, observe(lambda: np.concatenate([_ra(o) for o in ops], axis=1)))
        return
    la = case[1]
    if kind == "rslice1d":
        return _check_1d(case, acc)
    rows = dsl.distinct_rows(la)
    if 0 in la:
        acc.feature("empty_row")
    if len(la) == 0:
        acc.feature("zero_row_operand")
    if sum(la):
        acc.nontrivial()
    if kind == "like":
        fn, dt = getattr(np, case[2]), case[3]
        kw = {} if dt is None else {"dtype": np.dtype(dt)}
        if case[2] == "empty_like":
            _cmp(acc, "empty_like-lengths", A(la, shape=(len(la),)), observe(lambda: np.asarray(fn(_ra(rows), **kw).lengths)))
            _cmp(acc, "empty_like-dtype", ("str", dt or "int64"), observe(lambda: str(fn(_ra(rows), **kw).dtype)))
        else:
            v = 0 if case[2] == "zeros_like" else 1
            exp = R([[v] * l for l in la], dtype=dt or "int64")
            _cmp(acc, case[2], exp, observe(lambda: fn(_ra(rows), **kw), dt=True))
    elif kind == "padded":
        side, fill = case[2], case[3]
        m = max(la)
        if side == "left":
            acc.feature("padded_left")
        kw = {}
        if fill is not None:
            kw["fill_value"] = fill
        if side is not None:
            kw["side"] = side
        fv, sd = (0 if fill is None else fill), (side or "right")
        exp = A([(r + [fv] * (m - len(r))) if sd == "right" else ([fv] * (m - len(r)) + r) for r in rows], shape=(len(la), m))
        x = _ra(rows)
        twin = x + 0                       # shares its geometry with x
        _cmp(acc, f"as_padded_matrix({side})", exp, observe(lambda: x.as_padded_matrix(**kw)))
        _cmp(acc, f"as_padded_matrix({side}) again", exp, observe(lambda: x.as_padded_matrix(**kw)))
        _cmp(acc, "operand after padding", R(rows), observe(lambda: x))
        _cmp(acc, "array sharing the operand's geometry after padding", R(rows), observe(lambda: twin))
    elif kind == "mask":
        bits = case[2]
        it = iter(bits)
        mrows = [[bool(next(it)) for _ in r] for r in rows]
        if bits and not any(bits):
            acc.feature("mask_all_false")
        if bits and all(bits):
            acc.feature("mask_all_true")
        mk = lambda: _ra(mrows, bool)
        held_x, held_m = _ra(rows), _ra(mrows, bool)
        nz = ([i for i, r in enumerate(mrows) for j, b in enumerate(r) if b], [j for i, r in enumerate(mrows) for j, b in enumerate(r) if b])
        exp_nz = ("T", (A(nz[0], shape=(len(nz[0]),)), A(nz[1], shape=(len(nz[1]),))))
        _cmp(acc, "np.nonzero", exp_nz, observe(lambda: tap_array(np.nonzero(mk()))))
        _cmp(acc, "ra.nonzero()", exp_nz, observe(lambda: tap_array(mk().nonzero())))
        y = [[-x for x in r] for r in rows]
        _cmp(acc, "where(mask, x, y)", R([[a if b else c for a, b, c in zip(r, mr, yr)] for r, mr, yr in zip(rows, mrows, y)]),
             observe(lambda: np.where(mk(), _ra(rows), _ra(y))))
        _cmp(acc, "where(mask, x, scalar)", R([[a if b else -5 for a, b in zip(r, mr)] for r, mr in zip(rows, mrows)]),
             observe(lambda: np.where(mk(), _ra(rows), -5)))
        # the same mask as numbers (numpy: every non-zero cell is true -- negative ones too)
        k = itertools.count()
        nrows = [[((-3, 2, -1)[next(k) % 3] if b else 0) for b in mr] for mr in mrows]
        _cmp(acc, "where(numeric mask, x, y)", R([[a if b else c for a, b, c in zip(r, mr, yr)] for r, mr, yr in zip(rows, mrows, y)]),
             observe(lambda: np.where(_ra(nrows), _ra(rows), _ra(y))))
        exps = [[a for a, b in zip(r, mr) if b] for r, mr in zip(rows, mrows)]
        _cmp(acc, "subset(mask)", R(exps), observe(lambda: _ra(rows).subset(mk())))
        flat = [a for r in exps for a in r]
        _cmp(acc, "ra[mask]", A(flat, shape=(len(flat),)), observe(lambda: _ra(rows)[mk()]))
        # one pair of objects through the whole sequence of functions, then unchanged
        held_y = _ra(y)
        _cmp(acc, "where(mask, x, y) on held operands", R([[a if b else c for a, b, c in zip(r, mr, yr)] for r, mr, yr in zip(rows, mrows, y)]),
             observe(lambda: np.where(held_m, held_x, held_y)))
        _cmp(acc, "where(~mask, x, y) afterwards", R([[c if b else a for a, b, c in zip(r, mr, yr)] for r, mr, yr in zip(rows, mrows, y)]),
             observe(lambda: np.where(~held_m, held_x, held_y)))
        _cmp(acc, "y after where", R(y), observe(lambda: held_y))
        seq = observe(lambda: (np.nonzero(held_m), np.where(held_m, held_x, -5), held_x.subset(held_m), held_x[held_m], held_m.nonzero())[2])
        _cmp(acc, "subset after a sequence of calls on the same objects", R(exps), seq)
        _cmp(acc, "operand after the sequence", R(rows), observe(lambda: held_x))
        _cmp(acc, "mask after the sequence", R(mrows), observe(lambda: held_m))
    elif kind in ("rslice", "rslice2d"):
        from npstructures import ragged_slice
        combo = case[2]
        st = np.array([c[0] for c in combo], dtype=int)
        en = np.array([c[1] for c in combo], dtype=int)
        if any(c[1] < 0 for c in combo):
            acc.feature("negative_end")
        if any(len(r[c[0]:c[1]]) == 0 for r, c in zip(rows, combo)):
            acc.feature("empty_window")
        if any((c[1] if c[1] >= 0 else len(r) + c[1]) < c[0] for r, c in zip(rows, combo)):
            acc.feature("end_before_start")
        exp = R([r[c[0]:c[1]] for r, c in zip(rows, combo)])
        if kind == "rslice":
            _cmp(acc, "ragged_slice(ragged)", exp, observe(lambda: ragged_slice(_ra(rows), st, en)))
            _cmp(acc, "ragged_slice(ragged, ends only)", R([r[:c[1]] for r, c in zip(rows, combo)]),
                 observe(lambda: ragged_slice(_ra(rows), ends=en)))
            _cmp(acc, "ragged_slice(ragged, starts only)", R([r[c[0]:] for r, c in zip(rows, combo)]),
                 observe(lambda: ragged_slice(_ra(rows), starts=st)))
        else:
            acc.feature("input_2d")
            mat = np.array(rows)
            _cmp(acc, "ragged_slice(2-D)", exp, observe(lambda: ragged_slice(mat.copy(), st, en)))
            _cmp(acc, "ragged_slice(2-D, column-major)", exp, observe(lambda: ragged_slice(np.asfortranarray(mat), st, en)))
            _cmp(acc, "ragged_slice(2-D, transposed view)", exp, observe(lambda: ragged_slice(mat.T.copy().T, st, en)))
    elif kind == "rslice_none":
        from npstructures import ragged_slice
        _cmp(acc, "ragged_slice(no bounds)", R(rows), observe(lambda: ragged_slice(_ra(rows))))
    else:
        raise ValueError(kind)


def _check_1d(case, acc):
    from npstructures import ragged_slice
    from npstructures.mixin import NPSArray
    _, n, combo = case
    acc.feature("input_1d")
    arr = np.arange(10, 10 + n)
    st = np.array([c[0] for c in combo], dtype=int)
    en = np.array([c[1] for c in combo], dtype=int)
    if any(c[1] < 0 for c in combo):
        acc.feature("negative_end")
    if n and combo:
        acc.nontrivial()
    exp = R([arr[c[0]:c[1]].tolist() for c in combo])
    _cmp(acc, "ragged_slice(1-D)", exp, observe(lambda: ragged_slice(arr.copy(), st, en)))
    acc.feature("npsarray")
    _cmp(acc, "NPSArray[starts:ends]", exp, observe(lambda: arr.copy().view(NPSArray)[st:en]))
