"""C09 -- column aggregates count every row that reaches the column, once (Mode I)."""
from fractions import Fraction
import numpy as np
from mc import dsl
from mc.norm import attempt, is_refused, pyval

PROP = "C09"
RULE = ("cases = (row-length vector with >= 1 non-empty row, dtype, value pattern, aggregate), enumerated completely; oracle = gather "
        "column j from the list of rows, Python sum / len / exact rational mean; non-trivial = rows of at least two different lengths")
ASSUMPTIONS = ["column sums compared exactly as Python numbers for |values| < 2**31 (patterns are reduced to that range), "
               "means within 4 ulp of float64 (float32 for float32 input)",
               "values only: the result dtype of sum(axis=0) is not part of the statement"]
REQUIRED_FEATURES = ["empty_row", "rows_of_different_lengths", "bool_count", "get_column_values", "same_object_sequence", "narrow_float_column_total"]
BOUNDS = {"quick": "LV(4,3) with a non-empty row x {bool,int8,int64,uint8,uint64,float32,float64} x 2 patterns x "
                   "{sum(axis=0) method/function, mean(axis=0) method/function, col_counts, get_column_values(j) for every j}; column numbers as numpy scalars of 4 types; same-object sequences (contiguous and pending view) incl. means",
          "thorough": "LV(5,4), 3 patterns, plus int16/int32"}
DTS = ["bool", "int8", "int64", "uint8", "uint64", "float32", "float64"]


def shards(tier):
    vs = dsl.lens_vectors(4, 3) if tier == "quick" else dsl.lens_vectors(5, 4)
    return [{"lens": v} for v in vs if sum(v) > 0] + [{"lens": [3, 0, 7, 1, 0, 0, 12, 2, 5, 0, 9, 4, 1, 33, 0, 2]}] + [{"big": 1}]


BIG = {"int64": [(1 << 53) + 1, 2, 0, 0], "uint64": [(1 << 63) + 1, 3, 2, 5]}
# narrow floats whose column TOTAL leaves the element type's range although every element and the column mean fit
FBIG = {"float32": [3e38, 1.0, 3e38, 2.0], "float16": [30000.0, 1.0, 30000.0, 30000.0]}


def cases(shard, tier):
    if "big" in shard:
        # named cases outside exact-float territory: an integer column sum that float64 cannot represent
        for dt in ("int64", "uint64"):
            for op in ("sum_m", "sum_f"):
                yield [[2, 1, 1], dt, "big", op]
        for dt in FBIG:
            for op in ("sum_m", "mean_m", "mean_f"):
                yield [[2, 1, 1], dt, "fbig", op]
        # a single column of float32 cells whose exact total needs more than float32's 24 bits
        for op in ("sum_m", "sum_f", "mean_m"):
            yield [[1, 1, 1, 0], "float32", "f32col", op]
        return
    lens = shard["lens"]
    for dt in (DTS if tier == "quick" else DTS + ["int16", "int32"]):
        for k in range(2 if tier == "quick" else 3):
            for op in ("sum_m", "sum_f", "mean_m", "mean_f", "col_counts"):
                yield [lens, dt, k, op]
            for j in range(max(lens)):
                yield [lens, dt, k, f"col{j}"]
        if dt in ("int64", "float64"):
            # the same object asked repeatedly, contiguous and as a selection nothing has read yet (a read materialises it on the way)
            yield [lens, dt, 0, "seq_contig"]
            for vk in VIEW_KINDS:
                yield [lens, dt, 0, "seq_view" + vk]


def check(case, acc):
    from npstructures import RaggedArray
    lens, dt, k, op = case
    size, m = sum(lens), max(lens)
    if 0 in lens:
        acc.feature("empty_row")
    if len(set(lens)) > 1:
        acc.feature("rows_of_different_lengths")
        acc.nontrivial()
    if k == "f32col":
        acc.feature("narrow_float_column_total")
        flat = np.array([16777216.0, 1.0, 1.0], dtype=dt)
    elif k == "fbig":
        acc.feature("narrow_float_column_total")
        flat = np.array(FBIG[dt], dtype=dt)
    else:
        flat = dsl.pattern(dt, size, k) if k != "big" else np.array(BIG[dt], dtype=dt)
    if k not in ("big", "fbig", "f32col") and flat.dtype.kind in "iu" and flat.dtype.itemsize == 8:
        # keep exact-sum territory: |v| < 2**31 (the >2**53 class is a separate, named case of the thorough tier)
        flat = (flat % np.array(1 << 31, dtype=flat.dtype)).astype(flat.dtype) if flat.dtype.kind == "u" else \
            np.clip(flat, -(1 << 31), 1 << 31).astype(flat.dtype)
    rows = [r.tolist() for r in dsl.split_rows(flat, lens)]
    cols = [[r[j] for r in rows if len(r) > j] for j in range(m)]
    ra = RaggedArray(flat.copy(), list(lens))
    if dt == "bool":
        acc.feature("bool_count")
    if op.startswith("seq"):
        return _check_seq(acc, case, flat, rows, cols, ra)
    if op.startswith("sum"):
        exp = ("A", (m,), tuple(pyval(sum(c)) if dt != "bool" else sum(1 for x in c if x) for c in cols))
        call = (lambda: ra.sum(axis=0)) if op == "sum_m" else (lambda: np.sum(ra, axis=0))
        tol = None
    elif op.startswith("mean"):
        exp = ("A", (m,), tuple(Fraction(sum(Fraction(x) for x in c), len(c)) for c in cols))
        call = (lambda: ra.mean(axis=0)) if op == "mean_m" else (lambda: np.mean(ra, axis=0))
        tol = float(np.finfo(np.float32 if dt == "float32" else np.float64).eps) * 4
    elif op == "col_counts":
        exp = ("A", (m,), tuple(len(c) for c in cols))
        call = lambda: ra.col_counts()
        tol = None
    else:
        acc.feature("get_column_values")
        j = int(op[3:])
        exp = ("A", (len(cols[j]),), tuple(pyval(x) for x in cols[j]))
        call = lambda: ra.get_column_values(j)
        tol = None

    def run():
        a = np.asarray(call())
        return ("A", tuple(a.shape), tuple(pyval(x) for x in a.ravel()))
    obs = attempt(run)
    acc.trans()
    acc.state((tuple(lens), dt, k, op, obs))
    acc.outcome(obs)
    if is_refused(obs):
        acc.fail("refused", _show(exp), obs)
    elif obs[1] != exp[1]:
        acc.fail("wrong-number-of-columns", _show(exp), obs)
    elif tol is None:
        if obs[2] != exp[2]:
            cl = None
            if k == "big" and all(isinstance(o, (int, float)) and float(o) == float(e) for o, e in zip(obs[2], exp[2])):
                cl = "c09.integer-column-sum-accumulated-in-float64"     # exactly the float64 rounding of the exact sum
            acc.fail("wrong-column-aggregate", _show(exp), obs, classifier=cl)
    else:
        for e, o in zip(exp[2], obs[2]):
            if isinstance(o, str) or abs(Fraction(o) - e) > tol * max(abs(e), abs(Fraction(o))):
                acc.fail("wrong-column-mean", _show(exp), obs)
                break
    if op.startswith("col") and op[3:].isdigit():
        # the column number spelled as numpy scalars (signed and unsigned)
        for sp in (np.int64, np.uint8, np.int8, np.uint64):
            o2 = attempt(lambda: (lambda a: ("A", tuple(a.shape), tuple(pyval(x) for x in a.ravel())))(np.asarray(ra.get_column_values(sp(j)))))
            acc.trans()
            if o2 != obs:
                acc.fail("column-number-spelling-matters", (sp.__name__, obs), o2)
    post = attempt(lambda: [list(map(pyval, r)) for r in ra.tolist()])
    if post != [list(map(pyval, r)) for r in rows]:
        acc.fail("operand-modified", rows, post)


VIEW_KINDS = ["", "_perm", "_colrev", "_colstep", "_cs0", "_cs1", "_cs2", "_cs3"]
# receivers that are column slices of the case's array with an explicit / out-of-range start or stop and a negative step: the truth is
# the same Python slice applied to every row
COLSLICES = {"_cs0": slice(1, None, -1), "_cs1": slice(2, None, -1), "_cs2": slice(None, -9, -1), "_cs3": slice(-9, None, 1)}


def _pending_view(kind, rows, dt):
    """the rows as a selection nothing has read yet, stored differently in the parent: reversed row order + an extra row; rows permuted
    with the first and last in place; every row reversed (read back with [:, ::-1]); junk in every other column (read back with [:, ::2])"""
    from npstructures import RaggedArray
    mk = lambda rs: RaggedArray(np.array([v for r in rs for v in r], dtype=dt), [len(r) for r in rs])
    n = len(rows)
    if kind == "":
        big = mk([[7]] + rows[::-1])
        int(big.size)          # the parent has been asked its size (memoised) before the selection is taken
        return big[:0:-1]
    if kind == "_perm":
        order = list(range(n))
        if n >= 4:
            order[1], order[2] = order[2], order[1]        # first and last rows stay where they are
        else:
            order = order[::-1]
        big = mk([rows[i] for i in order])
        inv = [order.index(i) for i in range(n)]
        return big[inv]
    if kind == "_colrev":
        return mk([r[::-1] for r in rows])[:, ::-1]
    big = mk([[x for v in r for x in (v, 7)] for r in rows])
    return big[:, ::2]


def _check_seq(acc, case, flat, rows, cols, ra):
    from npstructures import RaggedArray
    lens, dt, k, op = case
    acc.feature("same_object_sequence")
    vkind = op[len("seq_view"):] if op.startswith("seq_view") else None
    if vkind in COLSLICES:
        s = COLSLICES[vkind]
        parent_rows = rows
        rows = [r[s] for r in parent_rows]
        lens = [len(r) for r in rows]
        if not any(lens):
            return acc.undefined()
        cols = [[r[j] for r in rows if len(r) > j] for j in range(max(lens))]
        mkp = lambda: RaggedArray(np.array([v for r in parent_rows for v in r], dtype=dt), [len(r) for r in parent_rows])
        ra = mkp()[:, s]
    elif vkind is not None:
        ra = _pending_view(vkind, rows, dt)
    m = len(cols)
    colv = lambda j: ("A", (len(cols[j]),), tuple(pyval(x) for x in cols[j]))
    sums = ("A", (m,), tuple(pyval(sum(c)) for c in cols))
    counts = ("A", (m,), tuple(len(c) for c in cols))
    steps = [(f"col{j}", lambda j=j: ra.get_column_values(j), colv(j)) for j in range(m)]
    steps += [("sum0", lambda: ra.sum(axis=0), sums)]
    steps += [(f"col{j} again", lambda j=j: ra.get_column_values(j), colv(j)) for j in range(m)]
    steps += [("col_counts", lambda: ra.col_counts(), counts), ("tolist", lambda: np.array([len(r) for r in ra.tolist()]), ("A", (len(rows),), tuple(lens)))]
    steps += [(f"col{j} after tolist", lambda j=j: ra.get_column_values(j), colv(j)) for j in range(m)]
    steps += [("sum0 again", lambda: np.sum(ra, axis=0), sums)]
    # a third, untouched object of the same kind is asked its column counts FIRST (nothing has materialised it yet)
    ra3 = (mkp()[:, s] if vkind in COLSLICES else _pending_view(vkind, rows, dt)) if vkind is not None else RaggedArray(flat.copy(), list(lens))
    steps = [("col_counts first", lambda: ra3.col_counts(), counts), ("sum0 after counts", lambda: ra3.sum(axis=0), sums)] + steps
    means = ("A", (m,), tuple(pyval(sum(c)) / len(c) for c in cols))
    if dt == "int64":
        # exact in float64 for these small integers; the FIRST thing asked of a second, equal object
        ra2 = (mkp()[:, s] if vkind in COLSLICES else _pending_view(vkind, rows, dt)) if vkind is not None else RaggedArray(flat.copy(), list(lens))
        steps = [("mean0 first", lambda: ra2.mean(axis=0), means), ("col_counts after mean", lambda: ra2.col_counts(), counts)] + steps + \
                [("mean0", lambda: ra.mean(axis=0), means)]
    for name, f, exp in steps:
        o = attempt(lambda: (lambda a: ("A", tuple(a.shape), tuple(pyval(x) for x in a.ravel())))(np.asarray(f())))
        acc.trans()
        acc.outcome((name, o))
        if o != exp:
            acc.fail("same-object-sequence:" + name.split()[0], (name, exp), o)
            return


def _show(exp):
    return (exp[0], exp[1], tuple(float(x) if isinstance(x, Fraction) else x for x in exp[2]))
