"""C10 -- looking at an array never changes anything (Mode II: explicit-state BFS over histories).

Variables a (base), b, c.  Transitions: DERIVE(dst, src, selector), WRITE(var, ...), READ(var, ...).
State = canonical form of all live implementation objects (hidden view state, buffer sharing) in
product with the reference model.  Every transition replays its history on fresh real objects.

Oracles
 (1) state invariant: after every history each variable's content equals the reference model, in
     which reads are no-ops, a selection is a snapshot taken at selection time and the whole-array
     forms a[...] / a[()] are aliases;
 (2) read results: every READ returns what the same read returns on RaggedArray(model rows) built fresh;
 (3) literal differential (no expected values): (a) a READ transition leaves the observable content of
     every variable unchanged; (b) for every state S' reached from S through reads only, and every
     non-read operation o, the observation after S'.o equals the observation after S.o.

Known finding (design-level, DESIGN.md section 5): a write to the source (or an alias of it) of a
selection that has not been touched yet shows through in the selection.  It is classified with a
second, *lazy* model ("content is fixed at first touch", i.e. buffer sharing made explicit): a
deviation is attributed to the finding only if the observed contents equal the lazy model exactly;
the search does not expand below such a state."""
import numpy as np
from mc import dsl
from mc.canon import canon_shape, _buf, _arr, extra_attrs, RAGGED_KNOWN
from mc.norm import observe, attempt, is_refused
from mc.refmodel import ragged as M
from mc.checks.c06 import fresh

PROP = "C10"
MERGE_STATES = True
TECHNIQUE = "explicit-state breadth-first search over read/write/select histories on the real code, state hashing incl. buffer aliasing, invariant + read-commutation oracles"
RULE = ("states = canonical product (reference model, all live implementation objects incl. lazy-view state and buffer sharing) reached by "
        "histories of DERIVE/WRITE/READ transitions up to the stated depth, deduplicated by hashing; every transition is replayed on fresh "
        "real objects; non-trivial states = states with at least one pending (unmaterialised) selection")
ASSUMPTIONS = ["reference model: reads are no-ops, selections are snapshots, a[...] / a[()] are aliases (list-of-rows model)",
               "canonical form covers every instance attribute, the size memo and attributes unknown to the explorer included",
               "known finding 'lazy-view-write-through' is classified by an explicit buffer-sharing model; only deviations equal to that model are attributed to it"]
REQUIRED_FEATURES = ["pending_selection", "write_after_read", "alias_derivation",
                     "three_variables", "selection_of_selection", "write_through_alias", "write_through_read_result", "write_to_callers_buffer"]
BOUNDS = {"quick": "2 base arrays, 3 variables, every history of depth <= 4 over 11 selectors x 6 writes x 30 reads (all variables / sources), "
                   "plus depth 5 for histories on the first base whose first two steps are derivations; steps V (write through the array a read returned, 7 kinds) and, on a base built over a caller's strided buffer, X (the caller overwrites it); invariant: numpy print / error configuration unchanged after every step",
          "thorough": "3 base arrays, every history of depth <= 4 and depth 5 after two derivations on every base; the caller's-buffer base and the "
                      "four-row base to depth 4 (a depth-5-complete run of the alphabet as it was before rounds 5-10 -- 3.8 M transitions -- is "
                      "recorded in DESIGN.md section 11; with the present alphabet it no longer fits the session)"}

Q_BASES = [[2, 0, 3], [1, 2, 2]]
T_BASES = Q_BASES + [[0, 3, 1]]
PARTS = {"quick": 16, "thorough": 32}

SELS = {
    "rows+": ["s", 1, None, None], "rows-": ["s", None, None, -1], "list": None, "mask": None,
    "cols+": ["t", ["s", None, None, None], ["s", 1, None, None]], "cols-": ["t", ["s", None, None, None], ["s", None, None, -1]],
    "cols2": ["t", ["s", None, None, None], ["s", None, None, 2]],
    "perm": None,
    "cols3": ["t", ["s", None, None, None], ["s", None, None, 3]],
    "E": "E", "T0": "T0",
}
ALIAS = ("E", "T0")
WRITES = ["row0", "col0", "fill", "cell", "rows1", "from"]
# read name -> touches (materialises a pending variable)?
READS = {"meta": False, "repr": True, "tolist": True, "ravel": True, "x[0]": True, "x[1:]": False, "x[:,::-1]": False,
         "x[0,0]": True, "x+1": True, "sum-1": True, "sum0": True, "concat": True, "x[...]": True, "x+y": True,
         "x[:,::2]": False, "x[mask]": True, "rslice": True, "col_counts": False, "x*fcol": True, "argmax": True, "x[ri,ci]": True, "colvals": False,
         "sort": True, "unique": True, "cumsum": True, "nonzero": True, "mean-1": True, "x[:,-1]": False, "x[-1:]": False, "x[:-1]": False}
# writes THROUGH the ndarray a read returned (r = x[0]; r[...] = -4).  Whether such a result is a view or a copy is the library's
# choice, so these steps have no model; they are judged by the read-commutation oracle alone and not expanded further.
VIA = ["x[0]", "x[-1]", "x[-1,0:2]", "x[0,::2]", "ravel", "x[:,0]", "sum-1"]
VARS = ["a", "b", "c"]


def _global_config():
    """process-wide numpy configuration that later operations (printing, arithmetic warnings) depend on"""
    po = np.get_printoptions()
    return (tuple(sorted((k, repr(v)) for k, v in po.items())), tuple(sorted(np.geterr().items())))


_G0 = _global_config()
_G0_RAW = (np.get_printoptions(), np.geterr())


def _restore_global_config():
    po = dict(_G0_RAW[0])
    np.set_printoptions(**{k: v for k, v in po.items() if k != "override_repr" or v is not None})
    np.seterr(**_G0_RAW[1])


def shards(tier):
    bases = Q_BASES if tier == "quick" else T_BASES
    depth = 4          # both tiers: every history of depth <= 4; the tiers differ in the bases and in which histories go one step further
    n = PARTS[tier]
    out = [{"base": b, "depth": depth, "part": p, "of": n} for b in bases for p in range(n)]
    # the base array built over a strided view of a caller's buffer ("ext"), with the extra step X = the caller writes to that buffer
    ne = 4 if tier == "quick" else 16
    out += [{"base": ["ext"] + Q_BASES[0], "depth": 3 if tier == "quick" else 4, "part": p, "of": ne} for p in range(ne)]
    # a four-row base (row lists that keep the first and last row in place need four rows), one level less deep
    out += [{"base": [1, 2, 1, 2], "depth": 3 if tier == "quick" else 4, "part": p, "of": ne} for p in range(ne)]
    # two long rows (composed column steps 3 x 2 only differ from a clipped stride on rows of seven and more cells)
    out += [{"base": [7, 9], "depth": 3, "part": p, "of": ne} for p in range(ne)]
    return out


def _sel(name, n):
    if name == "list":
        return ["l", [n - 1, 0]] if n else ["l", []]
    if name == "mask":
        return ["m", [(i + 1) % 2 for i in range(n)]]
    if name == "perm":      # first and last row in place, the middle ones swapped (with fewer than four rows: a repeated first row)
        return ["l", [0, 2, 1] + list(range(3, n))] if n >= 4 else (["l", [0, 0] + list(range(1, n))] if n else ["l", []])
    return SELS[name]


# ---------------------------------------------------------------- the two models
class Snapshot:
    """the specification: reads are no-ops, selections are snapshots, E / T0 are aliases"""

    def __init__(self, rows):
        self.v = {"a": [list(r) for r in rows]}

    def lens(self, x):
        return [len(r) for r in self.v[x]]

    def derive(self, dst, src, sel_name):
        rows = self.v[src]
        if sel_name in ALIAS:
            self.v[dst] = rows
            return
        kind, coords, _ = M.index_coords([len(r) for r in rows], dsl.dec(_sel(sel_name, len(rows))))
        self.v[dst] = [[rows[r][c] for (r, c) in row] for row in coords]

    def write(self, x, w, other=None):
        rows = self.v[x]
        if w == "row0":
            rows[0][:] = [-7] * len(rows[0])
        elif w == "col0":
            for r in rows:
                if r:
                    r[0] = -8
        elif w == "fill":
            for r in rows:
                r[:] = [-6] * len(r)
        elif w == "cell":
            rows[-1][-1] = -5
        elif w == "rows1":
            for r in rows[1:]:
                r[:] = [-9] * len(r)
        elif w == "from":
            src = [list(r) for r in self.v[other]]
            for r, s in zip(rows, src):
                r[:] = s

    def contents(self):
        return {k: [list(r) for r in v] for k, v in self.v.items()}


class Lazy:
    """what the implementation does: a selection shares its source's buffer until it is first touched"""

    def __init__(self, rows):
        flat = [v for r in rows for v in r]
        idx, p = [], 0
        for r in rows:
            idx.append(list(range(p, p + len(r))))
            p += len(r)
        self.bufs = [flat]
        self.v = {"a": {"buf": 0, "rows": idx, "pending": False}}

    def touch(self, x):
        d = self.v[x]
        if d["pending"]:
            old = self.bufs[d["buf"]]
            new = [old[i] for r in d["rows"] for i in r]
            self.bufs.append(new)
            idx, p = [], 0
            for r in d["rows"]:
                idx.append(list(range(p, p + len(r))))
                p += len(r)
            d["buf"], d["rows"], d["pending"] = len(self.bufs) - 1, idx, False

    def derive(self, dst, src, sel_name):
        if sel_name in ALIAS:
            self.touch(src)
            s = self.v[src]
            self.v[dst] = {"buf": s["buf"], "rows": [list(r) for r in s["rows"]], "pending": False}
            return
        s = self.v[src]
        kind, coords, _ = M.index_coords([len(r) for r in s["rows"]], dsl.dec(_sel(sel_name, len(s["rows"]))))
        self.v[dst] = {"buf": s["buf"], "rows": [[s["rows"][r][c] for (r, c) in row] for row in coords], "pending": True}

    def write(self, x, w, other=None):
        self.touch(x)
        d = self.v[x]
        b = self.bufs[d["buf"]]
        rows = d["rows"]
        if w == "row0":
            for i in rows[0]:
                b[i] = -7
        elif w == "col0":
            for r in rows:
                if r:
                    b[r[0]] = -8
        elif w == "fill":
            for r in rows:
                for i in r:
                    b[i] = -6
        elif w == "cell":
            b[rows[-1][-1]] = -5
        elif w == "rows1":
            for r in rows[1:]:
                for i in r:
                    b[i] = -9
        elif w == "from":
            self.touch(other)
            o = self.v[other]
            src = [self.bufs[o["buf"]][i] for r in o["rows"] for i in r]
            for i, val in zip([i for r in rows for i in r], src):
                b[i] = val

    def via(self, x, v):
        """r = <read>; r[...] = -4 as the implementation does it today: x[0], x[-1] and ravel() touch x and return views of its buffer"""
        if v in ("x[0]", "x[-1]", "ravel", "sum-1"):
            self.touch(x)
        d = self.v[x]
        b = self.bufs[d["buf"]]
        cells = {"x[0]": d["rows"][0], "x[-1]": d["rows"][-1], "ravel": [i for r in d["rows"] for i in r]}.get(v, [])
        for i in cells:
            b[i] = -4

    def read(self, x, r, other=None):
        if READS[r]:
            self.touch(x)
            if other:
                self.touch(other)

    def contents(self):
        return {k: [[self.bufs[d["buf"]][i] for i in r] for r in d["rows"]] for k, d in self.v.items()}

    def any_pending(self):
        return any(d["pending"] for d in self.v.values())


# ---------------------------------------------------------------- alphabet
def enabled(snap):
    """operations enabled in a model state (the models decide applicability, so no read or write in the alphabet is ever refused)"""
    live = [x for x in VARS if x in snap.v]
    ops = [["X"]] if getattr(snap, "ext", False) else []
    free = [x for x in VARS if x not in snap.v]
    if free:
        dst = free[0]
        for src in live:
            for s in SELS:
                if s == "perm" and len(snap.v[src]) < 4:
                    continue
                if s == "cols3" and max((len(r) for r in snap.v[src]), default=0) < 6:
                    continue
                ops.append(["D", dst, src, s])
    for x in live:
        rows = snap.v[x]
        n = len(rows)
        for w in WRITES:
            if w in ("row0",) and n < 1:
                continue
            if w == "cell" and (n < 1 or not rows[-1]):
                continue
            if w == "from":
                for y in live:
                    if y != x and snap.lens(y) == snap.lens(x):
                        ops.append(["W", x, w, y])
                continue
            ops.append(["W", x, w])
        for r in READS:
            if r == "x[0]" and n < 1:
                continue
            if r == "x[0,0]" and (n < 1 or not rows[0]):
                continue
            if r in ("sum0", "col_counts", "colvals") and not any(rows):
                continue
            if r in ("argmax", "x[:,-1]") and (n < 1 or not all(rows)):
                continue
            if r == "x[ri,ci]" and (n < 1 or not rows[0] or not rows[-1]):
                continue
            if r == "x+y":
                for y in live:
                    if y != x and snap.lens(y) == snap.lens(x):
                        ops.append(["R", x, r, y])
                continue
            ops.append(["R", x, r])
        for v in VIA:
            if n < 1 or (v in ("x[-1,0:2]",) and not rows[-1]) or (v == "x[0,::2]" and not rows[0]) or (v == "x[:,0]" and not all(rows)):
                continue
            ops.append(["V", x, v])
    return ops


def do_write(objs, x, w, other=None):
    t = objs[x]
    if w == "row0":
        t[0] = -7
    elif w == "col0":
        t[:, 0:1] = -8
    elif w == "fill":
        t.fill(-6)
    elif w == "cell":
        t[-1, -1] = -5
    elif w == "rows1":
        t[1:] = -9
    elif w == "from":
        t[...] = objs[other]


def do_via(x, v):
    """write through the array a read returned"""
    if v == "x[0]":
        r = x[0]
    elif v == "x[-1]":
        r = x[-1]
    elif v == "x[-1,0:2]":
        r = x[-1, 0:2]
    elif v == "x[0,::2]":
        r = x[0, ::2]
    elif v == "ravel":
        r = x.ravel()
    elif v == "x[:,0]":
        r = x[:, 0]
    elif v == "sum-1":
        r = x.sum(axis=-1)
    else:
        raise ValueError(v)
    r = np.asarray(r)
    if r.flags.writeable:
        r[...] = -4


def do_read(x, r, y=None):
    if r == "meta":
        return (len(x), np.asarray(x.lengths), str(x.dtype), x.shape[0], int(x.size))
    if r == "repr":
        return (repr(x), str(x))[0][:0]
    if r == "tolist":
        return x.tolist()
    if r == "ravel":
        return x.ravel()
    if r == "x[0]":
        return x[0]
    if r == "x[1:]":
        return x[1:]
    if r == "x[:,::-1]":
        return x[:, ::-1]
    if r == "x[0,0]":
        return x[0, 0]
    if r == "x+1":
        return x + 1
    if r == "sum-1":
        return x.sum(axis=-1)
    if r == "sum0":
        return x.sum(axis=0)
    if r == "concat":
        return np.concatenate([x, x])
    if r == "x[...]":
        return x[...]
    if r == "x+y":
        return x + y
    if r == "x[:,::2]":
        return x[:, ::2]
    if r == "x[mask]":
        from mc.checks.c06 import _indep_mask
        return x[_indep_mask(x)]
    if r == "rslice":
        from npstructures import ragged_slice
        return ragged_slice(x, np.minimum(1, np.asarray(x.lengths)))
    if r == "col_counts":
        return x.col_counts()
    if r == "colvals":
        return x.get_column_values(0)
    if r == "x[:,-1]":
        return x[:, -1]
    if r == "x[-1:]":
        return x[-1:]
    if r == "x[:-1]":
        return x[:-1]
    if r == "mean-1":
        with np.errstate(all="ignore"):
            return x.mean(axis=-1)
    if r == "sort":
        return x.sort(axis=-1)
    if r == "unique":
        return np.unique(x, axis=-1, return_counts=True)
    if r == "cumsum":
        return x.cumsum(axis=-1)
    if r == "nonzero":
        return (x - 2).nonzero()
    if r == "x*fcol":
        from mc.checks.c06 import _fcol
        return x * _fcol(x)          # only an exact, row-independent broadcast survives inf / 1e17 / decimals
    if r == "argmax":
        return x.argmax(axis=-1)
    if r == "x[ri,ci]":
        ri, ci = _index_operands(len(x))
        out = x[ri, ci]
        return (out, ri.tolist(), ci.tolist())      # the index operands come back with the result: a read must not change them
    raise ValueError(r)


def _index_operands(n):
    """ndarray (rows, cols) operands of equal shape with negative entries; only rows 0 and n-1, which the alphabet keeps non-empty"""
    return np.array([0, n - 1, 0]), np.array([-1, 0, 0])


def apply_impl(objs, op):
    """-> plain result observation (reads: the normalised result; D / W: None or refused)"""
    if op[0] == "D":
        _, dst, src, s = op
        n = len(objs[src])

        def f():
            objs[dst] = objs[src][dsl.dec(_sel(s, n))]
        return attempt(f)
    if op[0] == "W":
        return attempt(lambda: do_write(objs, op[1], op[2], op[3] if len(op) > 3 else None))
    if op[0] == "V":
        return attempt(lambda: do_via(objs[op[1]], op[2]))
    if op[0] == "X":
        def f():
            objs["_ext"][...] = -3
        return attempt(f)
    return observe(lambda: do_read(objs[op[1]], op[2], objs[op[3]] if len(op) > 3 else None), dt=True)


def apply_models(snap, lazy, op):
    if op[0] == "D":
        snap.derive(op[1], op[2], op[3])
        lazy.derive(op[1], op[2], op[3])
    elif op[0] == "W":
        snap.write(op[1], op[2], op[3] if len(op) > 3 else None)
        lazy.write(op[1], op[2], op[3] if len(op) > 3 else None)
    elif op[0] == "X":
        lazy.bufs[0][:] = [-3] * len(lazy.bufs[0])      # the caller's buffer is the first buffer of the explicit buffer-sharing model
    elif op[0] == "V":
        lazy.via(op[1], op[2])          # no specification model (terminal step, judged differentially); the lazy model only attributes
    else:
        lazy.read(op[1], op[2], op[3] if len(op) > 3 else None)


def replay(base, hist):
    ext = bool(base) and base[0] == "ext"
    rows = dsl.distinct_rows(base[1:] if ext else base)
    if ext:
        from npstructures import RaggedArray
        buf = np.repeat(np.array([v for r in rows for v in r], dtype=np.int64), 2)
        objs = {"a": RaggedArray(buf[::2], [len(r) for r in rows]), "_ext": buf}
    else:
        objs = {"a": fresh(rows, np.int64)}
    snap, lazy = Snapshot(rows), Lazy(rows)
    snap.ext = ext
    for op in hist:
        apply_impl(objs, op)
        apply_models(snap, lazy, op)
    return objs, snap, lazy


def state_key(objs, snap):
    live = [x for x in VARS if x in objs]
    parts = []
    for x in live:
        o = objs[x]
        try:
            d, sh = _buf(o), getattr(o, "_shape", None)
            if d is None or sh is None:
                raise AttributeError("hidden state not found")
            d = np.asarray(d)
            share = tuple((bool(np.shares_memory(d, np.asarray(_buf(objs[y])))), getattr(objs[y], "_shape", None) is sh, objs[y] is o)
                          for y in live if y != x)
            parts.append((x, canon_shape(sh), _arr(d), d.strides, bool(getattr(o, "is_contigous", True)), bool(getattr(o, "_safe_mode", True)), share,
                          extra_attrs(o, RAGGED_KNOWN), getattr(o, "_size", None)))
        except Exception:  # noqa: BLE001  refactored / unexpected hidden state: coarser exploration, same verdicts
            parts.append(("fallback", x, tuple(objs[y] is o for y in live)))
    return hash((tuple(parts), repr(snap.v), tuple(id(snap.v[x]) == id(snap.v[y]) for x in live for y in live)))


def observe_all(objs):
    """size first (computed from the pending geometry), then the content, of every variable"""
    out = {}
    for x in VARS:
        if x in objs:
            o = objs[x]
            out[x] = (attempt(lambda: int(o.size)), observe(lambda: o))
    return out


def expected_obs(contents):
    return {x: (sum(len(r) for r in rows), ("R", None, tuple(tuple(r) for r in rows))) for x, rows in contents.items()}


# ---------------------------------------------------------------- the search
def run_shard(shard, tier, acc):
    base, depth, part, of = shard["base"], shard["depth"], shard["part"], shard["of"]
    seen = {}
    ctx = {"obs": {}, "succ": {}, "first": part == 0}
    objs, snap, lazy = replay(base, [])
    k0 = state_key(objs, snap)
    seen[k0] = k0
    ctx["obs"][k0] = repr(observe_all(objs))
    acc.state(k0)
    # node: (history, key, origin key = the state this one was reached from through reads only, n_derives)
    frontier = [([], k0, (k0, []))]
    max_depth = depth + 1            # one more level for histories that start with two derivations
    for d in range(1, max_depth + 1):
        nxt = []
        last = d >= depth
        for i, (hist, key, origin) in enumerate(frontier):
            if d > depth and not (len(hist) >= 2 and hist[0][0] == "D" and hist[1][0] == "D" and (tier != "quick" or base == Q_BASES[0])):
                continue
            if last and i % of != part:
                continue
            _, snap, _ = replay(base, hist)
            for op in enabled(snap):
                st, k2, org2 = _transition(acc, base, hist, key, origin, op, seen, ctx, count=(last or ctx["first"]))
                if st == "new" and d < max_depth:
                    nxt.append((hist + [op], k2, org2))
        frontier = nxt
    acc.feature(f"depth_{depth}_completed_for_all_histories")


def _transition(acc, base, hist, key, origin, op, seen, ctx, count=True):
    new_hist = hist + [op]
    if count:
        acc.begin(["hist", base, new_hist])
    objs, snap, lazy = replay(base, hist)
    res = apply_impl(objs, op)
    apply_models(snap, lazy, op)
    k2 = state_key(objs, snap)
    obs = observe_all(objs)
    if count:
        acc.trans()
        acc.outcome((repr(res) if op[0] == "R" else None, repr(obs)))
        _features(acc, op, hist, lazy, k2 == key)
    g = _global_config()
    if g != _G0:
        _restore_global_config()
        if count:
            acc.fail("operation-changed-process-wide-numpy-configuration", _G0, g, note=f"after {op}")
        return "bad", k2, None
    status, org2 = _judge(acc, base, new_hist, op, res, objs, snap, lazy, obs, key, origin, k2, ctx, count)
    if status != "ok":
        return status, k2, None
    if k2 in seen:
        return "seen", k2, None
    seen[k2] = k2
    ctx["obs"][k2] = repr(obs)
    acc.state(k2)
    if lazy.any_pending():
        acc.nontrivial()
    return "new", k2, org2


def _judge(acc, base, hist, op, res, objs, snap, lazy, obs, key, origin, k2, ctx, count):
    """all oracles for one executed transition -> ('ok' | 'known' | 'bad', origin of the new state)"""
    want = expected_obs(snap.contents())
    lz = expected_obs(lazy.contents())
    fail = acc.fail if count else (lambda *a, **k: None)
    if op[0] != "R" and is_refused(res):
        fail("valid-operation-refused", op, res)
        return "bad", None
    if op[0] in ("V", "X"):
        # write through a read's result / through the caller's buffer: only the read-commutation oracle applies (twin = same step without the inserted reads)
        okey, ohist = origin
        if okey != key:
            eo, es, el = replay(base, ohist)
            apply_impl(eo, op)
            apply_models(es, el, op)
            eobs = observe_all(eo)
            if repr(eobs) != repr(obs):
                if obs == lz and eobs == expected_obs(el.contents()):
                    fail("selection-content-depends-on-read-order", _show(eobs), _show(obs), classifier="c10.lazy-view-write-through",
                         note="a write through the view returned by a read of the source reached an untouched selection")
                    return "known", None
                fail("outcome-depends-on-inserted-reads", repr(eobs), repr(obs), note="write through the array returned by a read")
                return "bad", None
        return "terminal", None
    if obs != want:
        if obs == lz and lz != want:
            fail("selection-content-depends-on-read-order", _show(want), _show(obs), classifier="c10.lazy-view-write-through",
                 note="content of an untouched selection followed a later write to its source")
            return "known", None
        fail("content-differs-from-model", _show(want), _show(obs))
        return "bad", None
    robs = repr(obs)
    if op[0] == "R":
        # (2) the read returns what a fresh array with the model's content returns
        x = fresh(snap.v[op[1]], np.int64)
        y = fresh(snap.v[op[3]], np.int64) if len(op) > 3 else None
        exp = observe(lambda: do_read(x, op[2], y), dt=True)
        if res != exp:
            fail("read-result-differs-from-fresh-array", (op, exp), (op, res))
            return "bad", None
        if op[2] == "x[ri,ci]":
            # absolute expectation (a defect that hits the fresh array too is invisible to the differential above)
            rows = snap.v[op[1]]
            ri, ci = _index_operands(len(rows))
            want = ("T", (("A", "int64", (3,), tuple(rows[r][c] for r, c in zip(ri.tolist(), ci.tolist()))),
                          ("T", tuple(("S", "int", int(v)) for v in ri)), ("T", tuple(("S", "int", int(v)) for v in ci))))
            if res != want:
                fail("element-read-wrong-or-index-operand-modified", (op, want), (op, res))
                return "bad", None
        # (3a) a read leaves every variable's observable content unchanged
        if ctx["obs"].get(key) is not None and robs != ctx["obs"][key]:
            fail("read-changed-observable-content", ctx["obs"][key], robs)
            return "bad", None
        return "ok", origin
    # (3b) non-read op applied after extra reads gives the same observation as without them
    okey, ohist = origin
    sk = (okey, repr(op))
    prev = ctx["succ"].get(sk)
    if prev is None and okey != key:
        # the read-free twin was expanded in another shard (or not yet): execute it here
        eo, es, el = replay(base, ohist)
        apply_impl(eo, op)
        apply_models(es, el, op)
        eobs = observe_all(eo)
        if eobs == expected_obs(es.contents()):
            prev = ctx["succ"][sk] = repr(eobs)
    if prev is None:
        ctx["succ"][sk] = robs
    elif prev != robs:
        fail("outcome-depends-on-inserted-reads", prev, robs)
        return "bad", None
    return "ok", (k2, hist)


def _features(acc, op, hist, lazy, self_loop):
    if lazy.any_pending():
        acc.feature("pending_selection")
    if op[0] == "R":
        acc.feature("hidden:read_is_self_loop" if self_loop else "hidden:read_materialises")
    if op[0] == "W" and any(h[0] == "R" for h in hist):
        acc.feature("write_after_read")
    if op[0] == "V":
        acc.feature("write_through_read_result")
    if op[0] == "X":
        acc.feature("write_to_callers_buffer")
    if op[0] == "D" and op[3] in ALIAS:
        acc.feature("alias_derivation")
    if op[0] == "D" and op[1] == "c":
        acc.feature("three_variables")
        if op[2] == "b":
            acc.feature("selection_of_selection")
    if op[0] == "W" and any(h[0] == "D" and h[3] in ALIAS and (h[1] == op[1] or h[2] == op[1]) for h in hist):
        acc.feature("write_through_alias")


def _show(o):
    return {k: [v[0], v[1]] for k, v in o.items()}


def check(case, acc):
    """replay one recorded history: every prefix is re-judged, origin tracking rebuilt along the path"""
    _, base, hist = case
    objs, snap, lazy = replay(base, [])
    key = state_key(objs, snap)
    ctx = {"obs": {key: repr(observe_all(objs))}, "succ": {}, "first": True}
    origin = (key, [])
    for i in range(len(hist)):
        h, op = hist[:i], hist[i]
        objs, snap, lazy = replay(base, h)
        res = apply_impl(objs, op)
        apply_models(snap, lazy, op)
        k2 = state_key(objs, snap)
        obs = observe_all(objs)
        g = _global_config()
        if g != _G0:
            _restore_global_config()
            acc.fail("operation-changed-process-wide-numpy-configuration", _G0, g, note=f"after {op}")
            return
        st, org2 = _judge(acc, base, hist[:i + 1], op, res, objs, snap, lazy, obs, key, origin, k2, ctx, True)
        if st != "ok":
            return
        ctx["obs"][k2] = repr(obs)
        key, origin = k2, org2
