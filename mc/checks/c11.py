"""C11 -- HashTable is a dictionary over a fixed set of integer keys (Mode I grid + Mode II BFS).

Two kinds of shards:
  grid: the full configuration product (key set x modulus x key dtype x value form), every single-key
        lookup over the universe, every pair query (list and array form), contains, HashSet.contains,
        items, to_dict, equality -- no state change;
  bfs : explicit-state search over histories of state-changing operations (assign one / many / per-key,
        assign with an absent key, fill, zeros_like, ones_like, +) on a reduced configuration list;
        every new state (canonical form incl. the lazy scalar-valued representation) is fully observed
        on a replica and compared with a dict."""
import itertools
import numpy as np
from mc.canon import canon_table
from mc.norm import attempt, is_refused, pyval

PROP = "C11"
MERGE_STATES = True
TECHNIQUE = "exhaustive configuration grid + explicit-state BFS over assignment histories on the real code, dict reference model"
RULE = ("grid cases = (key set, modulus, key dtype, value form) enumerated completely, each fully observed (one transition per lookup); "
        "bfs states = canonical (dict model, table hidden state incl. scalar-vs-array value form) reached by histories of state-changing "
        "operations up to the stated depth, each new state fully observed on a replica; non-trivial = at least two keys share a bucket "
        "or the table is in its lazy scalar-valued form")
ASSUMPTIONS = ["reference model: a Python dict from int to value",
               "a single absent key may be refused or answered with an empty result (the statement only demands refusal for vector lookups), never with a value",
               "per-key vector assignment is only issued with distinct keys (numpy leaves the winner of duplicate fancy-index writes unspecified)"]
REQUIRED_FEATURES = ["all_keys_collide", "negative_key", "large_key", "unsigned_keys", "scalar_valued", "absent_key_colliding",
                     "absent_key_empty_bucket", "vector_with_absent", "lazy_form_materialised", "bfs_depth2", "empty_query", "one_element_vector", "equality_across_representations", "addition_other_key_order"]
BOUNDS = {"quick": "grid: every non-empty key subset of size <= 3 of {0,1,2,3,7,-1,-3,2**62} (int64), moduli {default,1,2,3,5,64}, 4 value forms; "
                   "the dtype list {int32,int8,uint8,uint64,python list} on 14 key sets; universe of 10 probe keys, all 100 pair queries. "
                   "bfs: 20 configurations, all histories of depth <= 2 over ~20 state-changing operations, full observation of every distinct state; one-element and empty key vectors; assigned values outside the key dtype's range and fractional values; caller's arrays and a twin table re-read",
          "thorough": "grid: subsets of size <= 4 incl. all insertion orders for size <= 3; bfs: depth 3, 40 configurations"}

U = [0, 1, 2, 3, 5, 7, -1, -3, 2 ** 62, 2 ** 62 + 1]
KEYU = [0, 1, 2, 3, 7, -1, -3, 2 ** 62]
MODS = [None, 1, 2, 3, 5, 64]
VFORMS = ["ints", "floats", "scalar0", "scalar7", "scalar_half"]
DTYPE_KEYSETS = [[0], [3], [0, 1], [1, 3], [2, 7], [0, 1, 2], [5, 3, 1], [7, 0, 2], [1, 2, 3, 5], [-1], [-3, 1], [-1, 0, 2], [2 ** 62, 1], [2 ** 62 + 1, 2 ** 62, 0]]


def _fits(keys, kdt):
    if kdt is None:
        return True
    info = np.iinfo(np.dtype(kdt))
    return all(info.min <= k <= info.max for k in keys)


def shards(tier):
    out = []
    size = 3 if tier == "quick" else 4
    for k in range(1, size + 1):
        for ks in itertools.combinations(KEYU, k):
            orders = [list(ks)]
            if tier != "quick" and k <= 3:
                orders = [list(p) for p in itertools.permutations(ks)]
            elif k >= 2:
                orders.append(list(ks)[::-1])
            for o in orders:
                out.append({"grid": o, "kdt": "int64"})
    out.append({"grid": list(range(-20, 20)), "kdt": "int64"})           # 40 keys: size / threshold effects
    out.append({"grid": list(range(100, 117)), "kdt": "uint8"})
    for ks in DTYPE_KEYSETS:
        for kdt in ("int32", "int8", "uint8", "uint64", None):
            if _fits(ks, kdt):
                out.append({"grid": ks, "kdt": kdt})
    cfgs = BFS_CONFIGS if tier == "quick" else BFS_CONFIGS + BFS_CONFIGS_T
    for c in cfgs:
        out.append({"bfs": c, "depth": 2 if tier == "quick" else 3})
    return out


BFS_CONFIGS = [
    [[0, 1, 2], None, "int64", "ints"], [[0, 1, 2], 1, "int64", "scalar0"], [[1, 3], 2, "int64", "scalar7"], [[5, -1, 2], 3, "int64", "floats"],
    [[3, 0, 7, 1], None, "int64", "scalar0"], [[2 ** 62, 1], None, "int64", "ints"], [[-3, -1], 2, "int64", "scalar7"], [[7], None, "int64", "scalar0"],
    [[0, 1, 2], 2, "uint8", "ints"], [[1, 3], None, "uint64", "scalar0"], [[2, 7], 5, "int8", "scalar7"], [[0, 1], 64, None, "ints"],
    [[1, 2, 3, 5], 1, "int32", "scalar0"], [[1, 3], 2, "int64", "scalar_half"], [[0, 1, 2], None, "int8", "scalar_half"], [[0, 2], None, "int32", "floats"], [[-1, 0, 2], 5, "int8", "ints"], [[3], 1, "uint8", "scalar7"],
    [[2 ** 62 + 1, 2 ** 62, 0], 2, "int64", "scalar0"], [[1, 2], 3, "uint64", "ints"],
]
BFS_CONFIGS_T = [[ks, m, "int64", vf] for ks in ([0, 1], [1, 2, 3], [7, -3], [0, 2, 2 ** 62]) for m in (None, 1, 3) for vf in ("ints", "scalar0")][:22]


def cases(shard, tier):
    keys, kdt = shard["grid"], shard["kdt"]
    mods = MODS + {"int8": [100, 127], "uint8": [200, 255]}.get(kdt, [])
    for mod in mods:
        for vf in VFORMS:
            if vf == "scalar_half" and mod not in (None, 2):
                continue
            if vf == "scalar7" and mod in (3, 64):
                continue
            if vf == "floats" and mod in (1, 3, 5):
                continue
            yield ["grid", keys, mod, kdt, vf]


# ---------------------------------------------------------------- construction
def init_values(keys, vf):
    if vf == "ints":
        return [10 * (i + 1) for i in range(len(keys))]
    if vf == "floats":
        return [1.5 + i for i in range(len(keys))]
    if vf == "scalar_half":
        return 0.5
    return 0 if vf == "scalar0" else 7


CALLER = {}


def make(keys, mod, kdt, vf, values=None):
    from npstructures import HashTable
    karr = np.array(keys, dtype=kdt) if kdt else list(keys)
    v = init_values(keys, vf) if values is None else values
    if isinstance(v, list):
        varr = np.array(v)
        # the caller's own arrays (must stay untouched) and a twin table built from the very same arrays (must stay independent)
        CALLER.clear()
        CALLER.update({"keys": karr, "keys0": np.array(karr).copy(), "values": varr, "values0": varr.copy()})
        t = HashTable(karr, varr, mod=mod)
        if values is None:
            CALLER["twin"] = HashTable(karr, varr, mod=mod)
            CALLER["twin_model"] = {k: v[i] for i, k in enumerate(keys)}
        return t
    if vf == "scalar_half":
        return HashTable(karr, v, mod=mod)          # float scalar, no value_dtype given
    return HashTable(karr, v, mod=mod, value_dtype=np.int64 if vf != "floats" else np.float64)


def model0(keys, vf):
    v = init_values(keys, vf)
    return {k: (v[i] if isinstance(v, list) else v) for i, k in enumerate(keys)}


def eff_mod(keys, mod):
    return mod if mod is not None else 2 * len(keys) - 1


# ---------------------------------------------------------------- observation of one table against a dict
def _vals(x):
    a = np.asarray(x)
    return tuple(pyval(v) for v in a.ravel())


def observe_table(acc, t_factory, d, keys, mod, kdt, probe_keys, pairs, tag="", classify=None):
    """every observation is made on its own fresh replica (t_factory()), so none can perturb another"""
    cl = classify or (lambda kind, q, form=None: None)
    m = eff_mod(keys, mod)
    buckets = {k % m for k in keys}
    for k in probe_keys:
        o = attempt(lambda: _vals(t_factory()[k]))
        acc.trans()
        acc.outcome(("get1", k, o))
        if k in d:
            if o != (pyval(d[k]),):
                acc.fail("single-lookup-wrong", (k, d[k]), o, classifier=cl("get1", [k]))
        else:
            acc.feature("absent_key_colliding" if (k % m) in buckets else "absent_key_empty_bucket")
            if not is_refused(o) and o != ():
                acc.fail("absent-key-answered-with-a-value", (k, "refused or empty"), o, classifier=cl("get1-absent", [k]))
    singles = [(k,) for k in probe_keys]
    for q in singles + list(pairs):
        present = all(k in d for k in q)
        if len(q) == 1:
            acc.feature("one_element_vector")        # a vector of length one is still a vector: an absent key is refused
        for form in ("list", "array", "array64"):
            if form == "array":
                if kdt is not None and not _fits(q, kdt):
                    continue
                qq = np.array(q, dtype=kdt or np.int64)
            elif form == "array64":
                if kdt in (None, "int64") or not _fits(q, "int64"):
                    continue
                qq = np.array(q, dtype=np.int64)        # wider / differently signed than the key dtype
            else:
                qq = list(q)
            o = attempt(lambda: _vals(t_factory()[qq]))
            acc.trans()
            acc.outcome(("getv", tuple(q), form, o))
            if present:
                if o != tuple(pyval(d[k]) for k in q):
                    acc.fail("vector-lookup-wrong", (q, [d[k] for k in q]), o, classifier=cl("getv", q, form), note=form)
            else:
                acc.feature("vector_with_absent")
                if not is_refused(o):
                    acc.fail("vector-lookup-with-absent-key-accepted", (q, "refused"), o, classifier=cl("getv-absent", q, form), note=form)
            c = attempt(lambda: tuple(bool(x) for x in t_factory().contains(qq)))
            acc.trans()
            if c != tuple(k in d for k in q):
                acc.fail("contains-wrong", (q, [k in d for k in q]), c, classifier=cl("contains", q, form), note=form)
    # the empty vector of keys: nothing is looked up, nothing is assigned
    for form, qq in (("list", lambda: []), ("array", lambda: np.array([], dtype=kdt or np.int64))):
        acc.feature("empty_query")
        o = attempt(lambda: _vals(t_factory()[qq()]))
        acc.trans()
        if o != ():
            acc.fail("vector-lookup-wrong", ([], []), o, classifier=cl("getv-empty", [], form), note=form)

        def assign_nothing():
            t = t_factory()
            t[qq()] = 5
            return {int(k): pyval(v) for k, v in t.to_dict().items()}
        o = attempt(assign_nothing)
        acc.trans()
        if o != {int(k): pyval(v) for k, v in d.items()}:
            acc.fail("assignment-to-no-keys-changed-the-table", d, o, classifier=cl("setv-empty", [], form), note=form)
    it = attempt(lambda: sorted((int(k), pyval(v)) for k, v in t_factory().items()))
    acc.trans()
    if it != sorted((int(k), pyval(v)) for k, v in d.items()):
        acc.fail("items-wrong", sorted(d.items()), it, classifier=cl("items", []))
    td = attempt(lambda: {int(k): pyval(v) for k, v in t_factory().to_dict().items()})
    acc.trans()
    if td != {int(k): pyval(v) for k, v in d.items()}:
        acc.fail("to_dict-wrong", d, td, classifier=cl("to_dict", []))


def _classify_factory(keys, mod, kdt, scalar_form):
    def cl(kind, q, form=None):
        if kdt == "uint64" and form in ("list", "array64") and kind in ("getv", "getv-absent", "contains") and \
                max([abs(k) for k in list(keys) + list(q)]) >= 2 ** 53:
            return "c11.uint64-keys-compared-with-int64-query-in-float64"
        if kdt == "uint64" and mod is None and kind in ("getv", "getv-absent", "contains"):
            return "c11.uint64-keys-default-modulus-list-query"
        if scalar_form and kind in ("get1-absent", "getv-absent"):
            return "c11.scalar-valued-table-answers-absent-keys"
        if scalar_form and kind in ("items", "to_dict"):
            return "c11.scalar-valued-table-items"
        return None
    return cl


def check(case, acc):
    if case[0] == "grid":
        return _check_grid(case, acc)
    return _check_hist(case, acc)


def _config_features(acc, keys, mod, kdt, vf):
    m = eff_mod(keys, mod)
    nontriv = False
    if len(keys) > 1 and len({k % m for k in keys}) == 1:
        acc.feature("all_keys_collide")
    if len({k % m for k in keys}) < len(keys):
        nontriv = True
    if any(k < 0 for k in keys):
        acc.feature("negative_key")
    if any(k >= 2 ** 62 for k in keys):
        acc.feature("large_key")
    if kdt and kdt.startswith("u"):
        acc.feature("unsigned_keys")
    if vf.startswith("scalar"):
        acc.feature("scalar_valued")
        nontriv = True
    if nontriv:
        acc.nontrivial()


def _check_grid(case, acc):
    from npstructures import HashSet
    _, keys, mod, kdt, vf = case
    _config_features(acc, keys, mod, kdt, vf)
    d = model0(keys, vf)
    f = lambda: make(keys, mod, kdt, vf)
    t = attempt(f)
    acc.state(("cfg", tuple(keys), mod, kdt, vf))
    if is_refused(t):
        acc.trans()
        acc.fail("constructor-refused", "constructed", t)
        return
    # probe keys outside the table's key dtype are outside the statement (numpy refuses the mixed-width arithmetic)
    probe = list(U) + ([300, -200] if kdt in ("int8", "uint8") else [])
    m = eff_mod(keys, mod)
    buckets = {k % m for k in keys}
    absent = [k for k in probe if k not in keys]
    pu = list(keys) + [k for k in absent if k % m in buckets][:2] + [k for k in absent if k % m not in buckets][:2]
    pu += [k for k in absent if k not in pu]
    pairs = list(itertools.product(pu[:6 if (kdt != "int64" or len(keys) <= 2) else 5], repeat=2))
    observe_table(acc, f, d, keys, mod, kdt, probe, pairs, classify=_classify_factory(keys, mod, kdt, vf.startswith("scalar")))
    # HashSet membership, scalar and vector
    karr = np.array(keys, dtype=kdt) if kdt else list(keys)
    hs = lambda: HashSet(karr, mod=mod)
    for k in probe:
        o = attempt(lambda: bool(hs().contains(k)))
        acc.trans()
        if o != (k in d):
            acc.fail("hashset-contains-wrong", (k, k in d), o)
    for q in pairs:
        o = attempt(lambda: tuple(bool(x) for x in hs().contains(list(q))))
        acc.trans()
        if o != tuple(k in d for k in q):
            acc.fail("hashset-contains-wrong", (q, [k in d for k in q]), o,
                     classifier="c11.uint64-keys-default-modulus-list-query" if (kdt == "uint64" and mod is None) else None)
    # equality with a table rebuilt from the model (same key order and modulus), and with one value changed
    eq = attempt(lambda: bool(f() == make(keys, mod, kdt, vf)))
    acc.trans()
    if eq is not True:
        acc.fail("equality-wrong", True, eq)
    if not vf.startswith("scalar"):
        v2 = list(init_values(keys, vf))
        v2[-1] = v2[-1] + 1
        ne = attempt(lambda: bool(f() == make(keys, mod, kdt, vf, values=v2)))
        acc.trans()
        if ne is not False:
            acc.fail("equality-wrong", False, ne)
    # the same dictionary in the other representation (one constant vs one value per key) is the same table
    from npstructures import HashTable
    karr = lambda ks: np.array(ks, dtype=kdt) if kdt else list(ks)
    if vf.startswith("scalar"):
        acc.feature("equality_across_representations")
        c = init_values(keys, vf)
        for name, g in (("constant == per-key", lambda: bool(f() == HashTable(karr(keys), [c] * len(keys), mod=mod))),
                        ("per-key == constant", lambda: bool(HashTable(karr(keys), [c] * len(keys), mod=mod) == f()))):
            o = attempt(g)
            acc.trans()
            if o is not True:
                acc.fail("equality-wrong", (name, True), o)
    # addition with a table over the same keys given in ANOTHER order: refused, or the sum of the two dictionaries
    if len(keys) > 1:
        acc.feature("addition_other_key_order")
        rk = list(keys)[::-1]
        other = {k: 1000 * (i + 1) for i, k in enumerate(rk)}

        def add_rev():
            s = f() + HashTable(karr(rk), [other[k] for k in rk], mod=mod)
            return {int(k): pyval(v) for k, v in s.to_dict().items()}
        o = attempt(add_rev)
        acc.trans()
        want = {int(k): pyval(d[k] + other[k]) for k in keys}
        if not is_refused(o) and o != want:
            acc.fail("addition-pairs-values-of-different-keys", want, o)


# ---------------------------------------------------------------- Mode II
def w_ops(keys, d, vf="ints"):
    """state-changing operations enabled for a table over `keys`"""
    absent = next(k for k in U if k not in keys and k >= 0 and k < 100)
    ops = []
    if vf in ("floats", "scalar_half"):
        ops.append(["set1", keys[-1], 2.5])
        ops.append(["addset", keys[-1], 2.5])      # a sum with an integer table is still a float table
    for i, k in enumerate(keys):
        ops.append(["set1", k, 50 + i])
    ops.append(["set1", absent, 99])
    pairs = [list(p) for p in itertools.product(keys[:3], repeat=2)][:5]
    for q in pairs:
        ops.append(["setv", q, 300])          # (values outside the range of the narrow key dtypes: keys and values must not share a dtype)
    for q in [list(p) for p in itertools.permutations(keys[:3], 2)][:3]:
        ops.append(["setvv", q, [-300, 72]])
    ops.append(["setv", [keys[0], absent], 98])
    if len(keys) > 1:
        ops.append(["setv_arr", [keys[-1], keys[0]], 63])
    ops.append(["fill", 9])
    ops.append(["zeros_like"])
    ops.append(["ones_like"])
    ops.append(["add"])
    return ops


def model_apply(d, op, keys):
    d = dict(d)
    k = op[0]
    if k == "set1":
        if op[1] in d:
            d[op[1]] = op[2]
    elif k in ("setv", "setv_arr"):
        if all(x in d for x in op[1]):
            for x in op[1]:
                d[x] = op[2]
    elif k == "setvv":
        for x, v in zip(op[1], op[2]):
            d[x] = v
    elif k == "fill":
        d = {x: op[1] for x in d}
    elif k == "zeros_like":
        d = {x: 0 for x in d}
    elif k == "ones_like":
        d = {x: 1 for x in d}
    elif k in ("add", "addset"):
        d = {x: v + 100 * (i + 1) for i, (x, v) in enumerate(d.items())}
        if k == "addset":
            d[op[1]] = op[2]
    return d


def impl_apply(t, op, cfg):
    """-> (table after, refused?)"""
    keys, mod, kdt, vf = cfg
    k = op[0]
    if k == "set1":
        t[op[1]] = op[2]
    elif k == "setv":
        t[list(op[1])] = op[2]
    elif k == "setv_arr":
        t[np.array(op[1], dtype=kdt or np.int64)] = op[2]
    elif k == "setvv":
        t[list(op[1])] = np.array(op[2])
    elif k == "fill":
        t.fill(op[1])
    elif k == "zeros_like":
        return np.zeros_like(t)
    elif k == "ones_like":
        return np.ones_like(t)
    elif k in ("add", "addset"):
        from npstructures import HashTable
        karr = np.array(keys, dtype=kdt) if kdt else list(keys)
        other = HashTable(karr, np.array([100 * (i + 1) for i in range(len(keys))]), mod=mod)
        s = t + other
        if k == "addset":
            s[op[1]] = op[2]
        return s
    return t


MUST_REFUSE = lambda op, d: op[0] in ("setv", "setv_arr") and not all(x in d for x in op[1])


def replay(cfg, hist):
    keys, mod, kdt, vf = cfg
    t = make(keys, mod, kdt, vf)
    d = model0(keys, vf)
    for op in hist:
        r = attempt(lambda: impl_apply(t, op, cfg))
        if not is_refused(r):
            t = r
        d = model_apply(d, op, keys)
    return t, d


def run_shard(shard, tier, acc):
    if "grid" in shard:
        for case in cases(shard, tier):
            acc.begin(case)
            check(case, acc)
        return
    cfg, depth = shard["bfs"], shard["depth"]
    keys, mod, kdt, vf = cfg
    acc.begin(["hist", cfg, []])
    _config_features(acc, keys, mod, kdt, vf)
    t, d = replay(cfg, [])
    seen = {hash((canon_table(t), repr(sorted(d.items()))))}
    _observe_state(acc, cfg, [])
    frontier = [[]]
    for dep in range(1, depth + 1):
        nxt = []
        for hist in frontier:
            _, d = replay(cfg, hist)
            for op in w_ops(keys, d, vf):
                h2 = hist + [op]
                acc.begin(["hist", cfg, h2])
                st = _step(acc, cfg, hist, op, seen)
                if st == "new":
                    if dep == 2:
                        acc.feature("bfs_depth2")
                    _observe_state(acc, cfg, h2)
                    nxt.append(h2)
        frontier = nxt


def _caller_check(acc, cfg):
    """after an operation on a table: the arrays given to its constructor and a twin table built from them are as before"""
    if not CALLER or cfg[3] not in ("ints", "floats"):
        return True
    ok = np.array_equal(np.asarray(CALLER["keys"]), CALLER["keys0"]) and np.array_equal(CALLER["values"], CALLER["values0"])
    if not ok:
        acc.fail("constructor-argument-modified", (CALLER["keys0"].tolist(), CALLER["values0"].tolist()),
                 (np.asarray(CALLER["keys"]).tolist(), CALLER["values"].tolist()))
        return False
    tw = CALLER.get("twin")
    if tw is not None:
        o = attempt(lambda: {int(k): pyval(v) for k, v in tw.to_dict().items()})
        if o != {int(k): pyval(v) for k, v in CALLER["twin_model"].items()}:
            acc.fail("table-built-from-the-same-arrays-changed", CALLER["twin_model"], o)
            return False
    return True


def _step(acc, cfg, hist, op, seen):
    t, d = replay(cfg, hist)
    r = attempt(lambda: impl_apply(t, op, cfg))
    acc.trans()
    if not _caller_check(acc, cfg):
        return "bad"
    d2 = model_apply(d, op, cfg[0])
    if is_refused(r):
        if not MUST_REFUSE(op, d):
            acc.fail("valid-operation-refused", op, r, classifier=_classify_step(cfg, op))
            return "bad"
        t2 = t
    else:
        if MUST_REFUSE(op, d):
            acc.fail("assignment-with-absent-key-accepted", (op, "refused"), "accepted", classifier=_classify_step(cfg, op))
            return "bad"
        t2 = r
    if cfg[3].startswith("scalar") and op[0] in ("set1", "setv", "setvv", "setv_arr") and \
            not any(h[0] in ("set1", "setv", "setvv", "setv_arr", "add", "addset") for h in hist):
        acc.feature("lazy_form_materialised")      # first assignment into a table built in its scalar-valued form
    k = hash((canon_table(t2), repr(sorted(d2.items()))))
    if k in seen:
        return "seen"
    seen.add(k)
    acc.state(k)
    return "new"


def _observe_state(acc, cfg, hist):
    keys, mod, kdt, vf = cfg
    _, d = replay(cfg, hist)
    absent = [k for k in U if k not in keys]
    m = eff_mod(keys, mod)
    buckets = {k % m for k in keys}
    coll = [k for k in absent if k % m in buckets][:1]
    free = [k for k in absent if k % m not in buckets][:1]
    probe = list(keys) + coll + free + ([absent[0]] if not (coll or free) else [])
    if kdt in ("int8", "uint8"):
        probe = probe + [k + 256 for k in keys[:1]]       # aliases a stored key after a cast to the key dtype
    pairs = list(itertools.product(probe, repeat=2))
    scalar_form = (vf.startswith("scalar") and not any(h[0] in ("set1", "setv", "setvv", "setv_arr", "add", "addset") for h in hist)) or \
        any(h[0] in ("zeros_like", "ones_like") for h in hist)
    observe_table(acc, lambda: replay(cfg, hist)[0], d, keys, mod, kdt, probe, pairs,
                  classify=_classify_factory(keys, mod, kdt, scalar_form))


def _check_hist(case, acc):
    _, cfg, hist = case
    seen = set()
    for i in range(len(hist)):
        st = _step(acc, cfg, hist[:i], hist[i], seen)
        if st == "bad":
            return
    _observe_state(acc, cfg, hist)


def _classify_step(cfg, op):
    keys, mod, kdt, vf = cfg
    if kdt == "uint64" and mod is None and op[0] in ("setv", "setvv"):
        return "c11.uint64-keys-default-modulus-list-query"
    return None
