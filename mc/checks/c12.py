"""C12 -- Counter totals equal the number of occurrences seen so far (Mode II: BFS over count histories)."""
import itertools
import collections
import numpy as np
from mc.canon import canon_table
from mc.norm import attempt, is_refused, pyval

PROP = "C12"
MERGE_STATES = True
TECHNIQUE = "explicit-state BFS over count() histories on the real code, dict reference model, cross-modulus / permutation / split differential"
RULE = ("states = canonical (totals dict, Counter hidden state incl. scalar-vs-array counts) reached by sequences of count(batch) calls up to the "
        "stated depth over a batch alphabet, for every configuration (key set, modulus, key dtype, initial value); every transition is replayed on "
        "fresh real objects and followed by a full read-back; histories with equal sample multisets are additionally compared with each other "
        "across moduli, batch orders and batch splits; non-trivial = the batch contains a key and a non-key sharing a bucket, or repeats")
ASSUMPTIONS = ["reference model: dict of totals = initial value + occurrences", "samples lie inside the key dtype's range (others are outside the statement)"]
REQUIRED_FEATURES = ["empty_batch", "only_non_keys", "non_key_colliding", "non_key_empty_bucket", "all_keys_collide", "scalar_nonzero_init",
                     "array_init", "large_key", "cross_history_comparisons", "depth2", "huge_batch", "ndarray_batch", "exhaustive_small_batches", "numpy_typed_initial_values", "negative_scalar_init"]
BOUNDS = {"quick": "10 key sets (1-5 keys, and 10 / 17 keys) x moduli {default,1,2,3,4,64} x initial {default, 0, 4, -3, per-key array} (+ int8/uint8/uint64/python-list keys, int32 counts on 4 sets); "
                   "all count histories of depth <= 2 over ~32 batches and depth 3 with the third batch from the 12 simplest (empty, every single universe element, ordered pairs over keys / colliding and "
                   "free non-keys, heavy repetition, only non-keys, large keys); every batch of <= 4 samples over 9 symbols on 3 tables with buckets of 3/2/1/0 keys; ndarray batches (one of them as a strided view), a 70 006-sample batch",
          "thorough": "12 key sets, depth 3 over the full batch alphabet"}

U = [0, 1, 2, 3, 5, 7, -1, 2 ** 62, 2 ** 62 + 1, 12, 15, 44]
KEYSETS_Q = [[0], [1, 3], [0, 1, 2], [5, -1, 2], [3, 0, 5, 1], [2 ** 62, 1], [7, 2 ** 62 + 1, 2 ** 62], [-1],
             list(range(10, 20)), list(range(40, 57))]      # 10 and 17 keys: above size thresholds of 8 / 16
KEYSETS_T = KEYSETS_Q + [[2, 7], [0, 3, 5, 7, 1], [-1, 0], [2 ** 62 + 1]]
MODS = [None, 1, 2, 3, 4, 64]
INITS = ["default", "zero", "four", "array", "ndarray"]
TYPED = [([0, 1, 2], "int8"), ([1, 3], "uint8"), ([5, 2, 7], "uint64"), ([3, 0, 5, 1], None), ([0, 1, 2], "int32c")]


def shards(tier):
    ks = KEYSETS_Q if tier == "quick" else KEYSETS_T
    out = [{"keys": k, "kdt": "int64", "init": i, "depth": 3} for k in ks for i in INITS]
    out += [{"keys": k, "kdt": d, "init": i, "depth": 2} for (k, d) in TYPED for i in ("default", "array")]
    # initial values spelled in numpy types: a numpy integer scalar, an unsigned per-key array
    out += [{"keys": k, "kdt": "int64", "init": i, "depth": 2} for k in ([0], [1, 3], [3, 0, 5, 1], [5, -1, 2]) for i in ("np_four", "uarray", "minus3")]
    # key sets at the ends of the key dtype's range / spread over more than half of it (bounds and spans computed in the key dtype wrap)
    out += [{"keys": k, "kdt": "int64", "init": i, "depth": 2} for k in EXTREME_KEYSETS for i in ("default", "four", "array")]
    # EVERY batch of up to 4 samples (5 in the thorough tier) over a 9-symbol universe, for tables whose buckets hold 3, 2, 1 (and 0) keys:
    # all relations between the sizes of the visited buckets, the number of samples and their order
    for ex in EXH:
        for part in range(4):
            out.append({"exh": ex, "part": part, "of": 4, "maxlen": 4 if tier == "quick" else 5})
    return out


EXTREME_KEYSETS = [[2 ** 63 - 1, 5, -3], [-2 ** 63, 7, 2 ** 63 - 1], [-2 ** 62 - 5, 2 ** 62, 1], [2 ** 63 - 2, 2 ** 63 - 1]]
EXH = [{"keys": [0, 4, 8, 1, 5, 2], "mod": 4, "extra": [3, 12, 9]},        # buckets {0,4,8} {1,5} {2} {}; non-keys: empty bucket / colliding
       {"keys": [7, 0, 14, 1, 8, 2, 3], "mod": 7, "extra": [21, 4, 15]},    # buckets {7,0,14} {1,8} {2} {3} and three empty ones
       {"keys": [6, 1, 3, 4, 2], "mod": None, "extra": [10, 0, 15]}]        # default modulus 9: {1} {2} {3} {4} {6}, colliding 10, 15, free 0


def _fits(k, kdt):
    if kdt in (None, "int32c"):
        return True
    info = np.iinfo(np.dtype(kdt))
    return info.min <= k <= info.max


def batches(keys, mod, kdt):
    m = mod if mod is not None else 2 * len(keys) - 1
    uni = [u for u in U if _fits(u, kdt)]
    buckets = {k % m for k in keys}
    nk = [u for u in uni if u not in keys]
    coll = [u for u in nk if u % m in buckets][:1]
    free = [u for u in nk if u % m not in buckets][:1]
    out = [[]] + [[u] for u in uni]
    p = [keys[0], keys[-1]] + coll + free
    p = list(dict.fromkeys(p))
    out += [list(t) for t in itertools.product(p, repeat=2)]
    if 0 in uni:
        out += [[0, k] for k in keys[:3]] + [[k, 0] for k in keys[:3]] + [[keys[-1], 0, keys[0]]]
    # heavy repetition, more samples than buckets, keys mixed with colliding AND empty-bucket non-keys (smallest and largest) in unequal multiplicities
    frees = [u for u in nk if u % m not in buckets]
    out.append([keys[0]] * 5 + [keys[-1]] * 2 + coll * 3 + frees[:1] * 2)
    out.append([keys[-1]] * 4 + frees[-1:] * 3 + [keys[0]] + coll + sorted(keys)[:1] * 2)
    if nk:
        out.append([nk[0], nk[-1], nk[0]])
    big = [u for u in uni if u >= 2 ** 62]
    if big:
        out.append([big[0], big[0], keys[0], big[-1]])
    seen, res = set(), []
    for b in out:
        if tuple(b) not in seen:
            seen.add(tuple(b))
            res.append(b)
    # the same kind of batch handed over as an ndarray: in the key dtype (keys only / with non-keys), and as uint64 against signed keys
    kd = "int64" if kdt in (None, "int32c") else kdt
    res.append({"arr": kd, "v": [keys[0], keys[-1], keys[0]]})
    res.append({"arr": kd, "v": p + p[:1]})
    if all(s >= 0 for s in p) and kd == "int64":
        res.append({"arr": "uint64", "v": p + p[:1] + [u for u in uni if u >= 2 ** 62]})
    return res


def huge_batch(keys, mod, kdt):
    """one batch far larger than the table and than any plausible chunk size: long stretches without a key, keys in between and at the end"""
    uni = [u for u in U if _fits(u, kdt)]
    nk = [u for u in uni if u not in keys]
    filler = (nk or [keys[0]])[0]
    return {"rep": [[filler, 40000], [keys[0], 3], [filler, 30000], [keys[-1], 2], [keys[0], 1]]}


def make(keys, mod, kdt, init):
    from npstructures import Counter
    kw = {"mod": mod}
    if kdt == "int32c":
        kw["value_dtype"] = np.int32
        karr = np.array(keys, dtype=np.int64)
    else:
        karr = np.array(keys, dtype=kdt) if kdt else list(keys)
    if init == "default":
        return Counter(karr, **kw)
    if init == "zero":
        return Counter(karr, 0, **kw)
    if init == "four":
        return Counter(karr, 4, **kw)
    if init == "minus3":         # a negative scalar initial value
        return Counter(karr, -3, **kw)
    if init == "np_four":        # the same constant spelled as a numpy integer scalar
        return Counter(karr, np.int64(4), **kw)
    if init == "uarray":         # per-key initial values in an unsigned dtype
        return Counter(karr, np.array([10 * (i + 1) for i in range(len(keys))], dtype=np.uint8), **kw)
    if init == "ndarray":
        global LAST_INIT
        LAST_INIT = np.array([10 * (i + 1) for i in range(len(keys))])       # the caller's own array: must never change
        return Counter(karr, LAST_INIT, **kw)
    return Counter(karr, [10 * (i + 1) for i in range(len(keys))], **kw)


LAST_INIT = None


def expand(b):
    """batches are lists of samples; long ones are stored run-length encoded as {"rep": [[value, count], ...]};
    {"arr": dtype, "v": [...]} is a batch handed over as an ndarray of that dtype"""
    if isinstance(b, dict) and "rep" in b:
        return [v for v, c in b["rep"] for _ in range(c)]
    if isinstance(b, dict):
        return list(b["v"])
    return b


def model0(keys, init):
    if init in ("default", "zero"):
        return {k: 0 for k in keys}
    if init == "ndarray":
        return {k: 10 * (i + 1) for i, k in enumerate(keys)}
    if init in ("four", "np_four"):
        return {k: 4 for k in keys}
    if init == "minus3":
        return {k: -3 for k in keys}
    return {k: 10 * (i + 1) for i, k in enumerate(keys)}


def replay(cfg, hist):
    keys, mod, kdt, init = cfg
    c = make(keys, mod, kdt, init)
    d = model0(keys, init)
    global ARR_DAMAGE
    ARR_DAMAGE = None
    for b in hist:
        if isinstance(b, dict) and "arr" in b:
            arr = np.array(b["v"], dtype=b["arr"])
            before = arr.copy()
            c.count(arr)
            if len(arr) % 2:
                second = np.repeat(arr, 2)[::2]     # the same samples once more, as a view of a larger buffer (every other cell)
                c.count(second)
                if not np.array_equal(second, before):
                    ARR_DAMAGE = (before.tolist(), second.tolist())
            else:
                c.count(arr)        # the same array object handed over twice
            if not np.array_equal(arr, before):
                ARR_DAMAGE = (before.tolist(), arr.tolist())
            b = list(b["v"]) * 2
        else:
            b = expand(b)
            c.count(list(b))
        for s in b:
            if s in d:
                d[s] += 1
    return c, d


ARR_DAMAGE = None


def read_back(c, keys, kdt):
    """counter[keys] as one vector and every counter[k]"""
    karr = np.array(keys, dtype=np.int64 if kdt in (None, "int32c") else kdt)
    v = tuple(pyval(x) for x in np.asarray(c[karr]).ravel())
    singles = tuple(tuple(pyval(x) for x in np.asarray(c[k]).ravel()) for k in keys)
    return (v, singles)


def _run_exhaustive(shard, tier, acc):
    ex = shard["exh"]
    keys, mod = ex["keys"], ex["mod"]
    uni = list(keys) + list(ex["extra"])
    cfg = [keys, mod, "int64", "default"]
    acc.feature("exhaustive_small_batches")
    cross = {}
    i = 0
    for L in range(1, shard["maxlen"] + 1):
        for b in itertools.product(uni, repeat=L):
            i += 1
            if i % shard["of"] != shard["part"]:
                continue
            acc.begin(["hist", cfg, [list(b)]])
            _step(acc, cfg, [list(b)], set(), cross)


def run_shard(shard, tier, acc):
    if "exh" in shard:
        return _run_exhaustive(shard, tier, acc)
    keys, kdt, init, depth = shard["keys"], shard["kdt"], shard["init"], shard["depth"]
    cross = {}       # sample multiset -> totals first observed (any modulus, order, split)
    for mod in MODS:
        cfg = [keys, mod, kdt, init]
        m = mod if mod is not None else 2 * len(keys) - 1
        if len(keys) > 1 and len({k % m for k in keys}) == 1:
            acc.feature("all_keys_collide")
        if init in ("four", "np_four", "minus3"):
            acc.feature("scalar_nonzero_init")
        if init == "minus3":
            acc.feature("negative_scalar_init")
        if init in ("array", "ndarray", "uarray"):
            acc.feature("array_init")
        if init in ("np_four", "uarray"):
            acc.feature("numpy_typed_initial_values")
        if any(k >= 2 ** 62 for k in keys):
            acc.feature("large_key")
        bs = batches(keys, mod, kdt)
        acc.begin(["hist", cfg, []])
        if _step(acc, cfg, [], set(), None) == "bad":        # the table as constructed: must exist and read back its initial values
            continue
        c, d = replay(cfg, [])
        seen = {hash((canon_table(c), repr(sorted(d.items()))))}
        frontier = [[]]
        for dep in range(1, depth + 1):
            nxt = []
            alphabet = bs if (dep <= 2 or tier != "quick") else bs[:12]
            if dep == 1 and mod in (None, 2):
                alphabet = alphabet + [huge_batch(keys, mod, kdt)]      # explored as a first batch (and then followed by every second batch)
            for hist in frontier:
                for b in alphabet:
                    h2 = hist + [b]
                    acc.begin(["hist", cfg, h2])
                    st = _step(acc, cfg, h2, seen, cross)
                    if dep == 2:
                        acc.feature("depth2")
                    if st == "new":
                        nxt.append(h2)
            frontier = nxt


def _batch_features(acc, cfg, b):
    keys, mod, kdt, init = cfg
    if isinstance(b, dict) and "arr" in b:
        acc.feature("ndarray_batch")
        b = list(b["v"])
    elif isinstance(b, dict):
        acc.feature("huge_batch")
        b = expand(b)[:0] + [v for v, c in b["rep"]]
    m = mod if mod is not None else 2 * len(keys) - 1
    buckets = {k % m for k in keys}
    if not b:
        acc.feature("empty_batch")
    elif not any(s in keys for s in b):
        acc.feature("only_non_keys")
    nontriv = len(set(b)) < len(b)
    for s in b:
        if s not in keys:
            if s % m in buckets:
                acc.feature("non_key_colliding")
                nontriv = nontriv or any(x in keys for x in b)
            else:
                acc.feature("non_key_empty_bucket")
    if nontriv:
        acc.nontrivial()


def _step(acc, cfg, hist, seen, cross):
    keys, mod, kdt, init = cfg
    if hist:
        _batch_features(acc, cfg, hist[-1])

    def run():
        c, d = replay(cfg, hist)
        return c, d, hash((canon_table(c), repr(sorted(d.items())))), read_back(c, keys, kdt)
    r = attempt(run)
    acc.trans()
    if is_refused(r):
        acc.fail("count-refused" if hist else "table-construction-refused", "counted" if hist else "a table over the key set", r)
        return "bad"
    c, d, key, obs = r
    if ARR_DAMAGE is not None:
        acc.fail("callers-sample-array-modified", ARR_DAMAGE[0], ARR_DAMAGE[1])
        return "bad"
    if init == "ndarray" and LAST_INIT is not None and LAST_INIT.tolist() != [10 * (i + 1) for i in range(len(keys))]:
        acc.fail("callers-initial-value-array-modified", [10 * (i + 1) for i in range(len(keys))], LAST_INIT.tolist())
        return "bad"
    exp = (tuple(d[k] for k in keys), tuple((d[k],) for k in keys))
    acc.outcome(obs)
    if obs != exp:
        acc.fail("totals-wrong", exp, obs)
        return "bad"
    if cross is not None:
        ms = tuple(sorted(collections.Counter(s for b in hist for s in (expand(b) * (2 if isinstance(b, dict) and "arr" in b else 1)) if s in d).items()))
        prev = cross.get(ms)
        if prev is None:
            cross[ms] = obs
        else:
            acc.feature("cross_history_comparisons")
            if prev != obs:
                acc.fail("totals-depend-on-modulus-order-or-split", prev, obs)
                return "bad"
    if key in seen:
        return "seen"
    seen.add(key)
    acc.state(key)
    return "new"


def check(case, acc):
    _, cfg, hist = case
    for i in range(0 if not hist else 1, len(hist) + 1):
        if _step(acc, cfg, hist[:i], set(), None) == "bad":
            return
