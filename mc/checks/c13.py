"""C13 -- bit-packing is lossless and position-addressable (Mode I)."""
import itertools
import numpy as np
from mc.norm import attempt, is_refused

PROP = "C13"
RULE = ("cases = (bit stride b, length, input dtype, content pattern), enumerated completely; each case checks unpack, every position, an enumerated "
        "family of position lists and every window size 1..64/b against Python integers (one transition per observation); "
        "non-trivial = the packed array spans more than one 64-bit register or ends inside a register")
ASSUMPTIONS = ["oracle: Python integers (sum(vals[i+j] << (b*j)))", "values fit in b bits (the statement's precondition)"]
REQUIRED_FEATURES = ["same_object_sequence", "boundary_bits", "dtype_narrower_than_stride", "length_not_multiple_of_register", "window_straddles_registers", "multi_register", "exhaustive_contents", "empty_array",
                     "position_list_with_repeats", "stride_64", "empty_position_list", "input_not_contiguous"]
BOUNDS = {"quick": "b in {1,2,4,8,16,32,64} x lengths {0..5, p-1,p,p+1, 2p-1,2p,2p+1, 3p+2} (p=64/b) x every integer dtype that holds 2**b-1 x "
                   "{zeros, max, alternating, progression}; ALL contents for b=1 (L<=10) and b=2 (L<=5); every position, 6 position-list families, every window 1..p; every integer dtype per stride; boundary-bit family; >4096-register arrays; list and ndarray position lists incl. empty, contiguous-unaligned and 3-cycles; numpy-integer window sizes; strided / reversed inputs; same-object observation sequences",
          "thorough": "every length 0..3p+2; all contents b=1 L<=12, b=2 L<=6, b=4 L<=3"}
STRIDES = [1, 2, 4, 8, 16, 32, 64]
INT_DTYPES = ["uint8", "int8", "uint16", "int16", "uint32", "int32", "uint64", "int64"]


def _dtypes_for(b):
    """dtypes that can hold every b-bit value first; then the narrower ones (their contents are clipped to the dtype's maximum:
    the values still fit in b bits, which is all the statement asks)"""
    wide = [dt for dt in INT_DTYPES if int(np.iinfo(dt).max) >= 2 ** b - 1]
    return wide + [dt for dt in INT_DTYPES if dt not in wide]


def shards(tier):
    out = [{"b": b, "dt": dt} for b in STRIDES for dt in _dtypes_for(b)]
    out += [{"huge": b} for b in (64, 32, 16)]          # > 4096 registers: block / chunk thresholds
    alls = [[1, 10 if tier == "quick" else 12], [2, 5 if tier == "quick" else 6]] + ([[4, 3]] if tier != "quick" else [])
    for b, L in alls:
        for n in range(L + 1):
            if 2 ** (b * n) > 512:
                for first in range(2 ** b):
                    out.append({"all": [b, n], "first": first})
            else:
                out.append({"all": [b, n]})
    return out


def _lengths(b, tier):
    p = 64 // b
    if tier == "quick":
        return sorted({0, 1, 2, 3, 4, 5, p - 1, p, p + 1, 2 * p - 1, 2 * p, 2 * p + 1, 3 * p + 2} - {-1})
    return list(range(0, 3 * p + 3))


def cases(shard, tier):
    if "huge" in shard:
        b = shard["huge"]
        yield [b, 4100 * (64 // b) + 1, _dtypes_for(b)[0], "prog"]
        return
    if "all" in shard:
        b, n = shard["all"]
        for t in itertools.product(range(2 ** b), repeat=n):
            if "first" in shard and t[0] != shard["first"]:
                continue
            yield [b, n, "uint8", ["lit", list(t)]]
        return
    b, dt = shard["b"], shard["dt"]
    for n in _lengths(b, tier):
        for pat in ("zeros", "max", "alt", "prog"):
            yield [b, n, dt, pat]
    if dt == _dtypes_for(b)[0] and int(np.iinfo(dt).max) >= 2 ** b - 1:
        # all-zero arrays of 2p+1 elements with two elements next to a register boundary set to {1, top bit only, all ones}:
        # every way a window can pick up or lose a bit when it straddles two registers
        p = 64 // b
        top = 2 ** b - 1
        specials = sorted({1, 2 ** (b - 1), top})
        pos = sorted({x for x in (p - 2, p - 1, p, p + 1, 2 * p - 1, 2 * p) if 0 <= x < 2 * p + 1})
        for i in range(len(pos)):
            for j in range(i, len(pos)):
                for v1 in specials:
                    for v2 in specials:
                        yield [b, 2 * p + 1, dt, ["at", [[pos[i], v1], [pos[j], v2]]]]


def _content(b, n, pat):
    top = 2 ** b - 1
    if isinstance(pat, list) and pat[0] == "at":
        out = [0] * n
        for i, v in pat[1]:
            out[i] = v
        return out
    if isinstance(pat, list):
        return list(pat[1])
    if pat == "zeros":
        return [0] * n
    if pat == "max":
        return [top] * n
    if pat == "alt":
        return [top if i % 2 else 0 for i in range(n)]
    # progression whose b-bit digits make neighbouring windows distinct
    return [((i * 2654435761 + 12345) >> 3) % (top + 1) if b > 1 else ((i * 7 + i // 3) % 2) for i in range(n)]


def check(case, acc):
    from npstructures import BitArray
    b, n, dt, pat = case
    vals = _content(b, n, pat)
    p = 64 // b
    if n == 0:
        acc.feature("empty_array")
    if n % p:
        acc.feature("length_not_multiple_of_register")
    if n > p:
        acc.feature("multi_register")
    if isinstance(pat, list) and pat[0] == "at":
        acc.feature("boundary_bits")
    elif isinstance(pat, list):
        acc.feature("exhaustive_contents")
    if b == 64:
        acc.feature("stride_64")
    if n > p or n % p:
        acc.nontrivial()
    dmax = int(np.iinfo(dt).max)
    if dmax < 2 ** b - 1:
        acc.feature("dtype_narrower_than_stride")
        vals = [min(v, dmax) if v > dmax else v for v in vals]
    arr = np.array(vals, dtype=dt)
    acc.state((b, n, dt, tuple(vals)))
    pk = lambda: BitArray.pack(arr.copy(), b)
    o = attempt(lambda: [int(x) for x in pk().unpack()])
    acc.trans()
    acc.outcome(("unpack", tuple(o) if isinstance(o, list) else o))
    if o != vals:
        acc.fail("unpack-differs", vals, o)
        return
    if attempt(lambda: arr.tolist()) != vals:
        acc.fail("input-modified", vals, arr.tolist())
    if n and n <= 400:
        # the same values as views of a larger buffer (every other cell; reversed storage)
        acc.feature("input_not_contiguous")
        for lname, view in (("strided", lambda: np.repeat(arr, 2)[::2]), ("reversed", lambda: arr[::-1].copy()[::-1])):
            o2 = attempt(lambda: [int(x) for x in BitArray.pack(view(), b).unpack()])
            acc.trans()
            if o2 != vals:
                acc.fail(f"pack({lname} view)-unpack-differs", vals, o2)
    for i in (range(n) if n <= 400 else list(range(60)) + list(range(n - 60, n))):
        o = attempt(lambda: int(pk()[i]))
        acc.trans()
        if o != vals[i]:
            acc.fail("element-wrong", (i, vals[i]), o)
            break
        if i in (0, 1, n // 2, n - 1):
            # the position as numpy integer scalars (what unpack(), len arithmetic and index arrays hand over)
            stop = False
            for sp in (np.int64, np.uint64, np.int32, np.uint8):
                if i > int(np.iinfo(sp).max):
                    continue
                o = attempt(lambda: int(pk()[sp(i)]))
                acc.trans()
                if o != vals[i]:
                    acc.fail("element-wrong", (f"{sp.__name__}({i})", vals[i]), o)
                    stop = True
                    break
            if stop:
                break
    fams = []
    if n:
        fams = [[0], [n - 1], list(range(n))[::-1], [0, 0, n - 1, 0], list(range(0, n, 3)), [i for i in (p - 1, p, p + 1, 2 * p) if i < n],
                [i for i in (2 * p + 1, 0, p + 1) if i < n], [i for i in (p, 2 * p, 0, p + 1, 2 * p + 1, 1) if i < n],
                list(range(1, n)), list(range(p // 2 + 1, n)), list(range(max(0, p - 1), n)), list(range(1, min(n, p + 1)))]
    broke = False
    for lst in fams:
        if not lst:
            continue
        if len(set(lst)) < len(lst):
            acc.feature("position_list_with_repeats")
        for form, mk in (("list", lambda: list(lst)), ("ndarray", lambda: np.array(lst, dtype=np.int64))):
            o = attempt(lambda: [int(x) for x in pk()[mk()].unpack()])
            acc.trans()
            if o != [vals[i] for i in lst]:
                acc.fail("position-list-wrong", (form, lst, [vals[i] for i in lst]), o)
                broke = True
                break
        if broke:
            break
    if n:
        # the empty position list (and the empty index array) selects nothing
        acc.feature("empty_position_list")
        for form, mk in (("list", lambda: []), ("ndarray", lambda: np.array([], dtype=np.int64))):
            o = attempt(lambda: [int(x) for x in pk()[mk()].unpack()])
            acc.trans()
            if o != []:
                acc.fail("position-list-wrong", (form, [], []), o)
    # the same packed object observed repeatedly: no read may disturb a later one
    acc.feature("same_object_sequence")
    one = attempt(lambda: BitArray.pack(arr.copy(), b))
    if not is_refused(one):
        seq = []
        ws = [w for w in (1, 2, p // 2, p) if 1 <= w <= min(n, p)]
        for w in ws:
            seq.append(("window", w, [sum(vals[i + j] << (b * j) for j in range(w)) for i in range(n - w + 1)],
                        lambda w=w: [int(x) for x in one.sliding_window(w)]))
            seq.append(("unpack-after-window", w, vals, lambda: [int(x) for x in one.unpack()]))
        if n:
            seq.append(("element-after-window", 0, vals[n - 1], lambda: int(one[n - 1])))
            seq.append(("list-after-window", 0, vals[::-1], lambda: [int(x) for x in one[list(range(n))[::-1]].unpack()]))
            seq.append(("unpack-after-list", 0, vals, lambda: [int(x) for x in one.unpack()]))
        for name, w, e, f in seq:
            o = attempt(f)
            acc.trans()
            if o != e:
                acc.fail(f"same-object:{name}", (w, e), o)
                break
    for w in (range(1, p + 1) if n <= 400 else sorted({1, 2, p} & set(range(1, p + 1)))):
        if w > n:
            break
        exp = [sum(vals[i + j] << (b * j) for j in range(w)) for i in range(n - w + 1)]
        if any((i % p) + w > p for i in range(n - w + 1)):
            acc.feature("window_straddles_registers")
        o = attempt(lambda: [int(x) for x in pk().sliding_window(w)])
        acc.trans()
        acc.outcome(("win", w, tuple(o) if isinstance(o, list) else o))
        if o != exp:
            acc.fail("sliding-window-wrong", (w, exp), o)
            break
        if w in (1, 2, p - 1, p) or w * b in (32, 48, 56):
            # the window size as numpy integers (what len(), shape entries and arithmetic on them hand over)
            bad = False
            for sp in (np.int64, np.int32):
                o2 = attempt(lambda: [int(x) for x in pk().sliding_window(sp(w))])
                acc.trans()
                if o2 != exp:
                    acc.fail("sliding-window-wrong", (f"{sp.__name__}({w})", exp), o2)
                    bad = True
                    break
            if bad:
                break
