"""C14 -- run-length encoding is lossless and canonical (Mode I)."""
import itertools
import numpy as np
from mc.norm import attempt, is_refused
from mc.rla_util import canon_violation, dense_obs, decode, ALPH, is_rla

PROP = "C14"
RULE = ("cases = every 1-D array of length 1..Lmax over a 2-4 letter alphabet per dtype (all run patterns), and every producing operation "
        "(slice, stepped slice, ufunc of two operands, scalar ufunc, concatenate, run-length mask) over the small arrays; "
        "non-trivial = the array has at least two runs")
ASSUMPTIONS = ["oracle: the dense array itself (element-wise ==, NaN matches NaN, dtype, length/size/shape)",
               "canonical form is read through the public starts / ends / values / len only",
               "'no equal adjacent values' is demanded exactly for the producers the statement lists: encoding, stepped slicing, ufuncs on two run-length operands"]
REQUIRED_FEATURES = ["input_not_contiguous", "decoded_twice", "producer_binary_nan", "producer_binary_of_derived_operands", "single_run", "all_different", "nan_values", "signed_zero", "producer_slice", "producer_step", "producer_binary", "producer_concat",
                     "producer_mask", "result_needed_rejoin", "producer_step_of_unjoined_operand"]
BOUNDS = {"quick": "all arrays L<=6 (bool, int8, int64, uint8, uint64, float16/32/64; 3-letter alphabets, 4 for float32/64 at L<=5); producers over all "
                   "int64 arrays L<=4: every in-range slice with steps +-1..3, add/maximum/equal of every pair (L<=3), scalar ops, concatenate pairs, run-length masks; inputs as reversed / strided / matrix-column views; NaN / inf binary producers; stepped slices of an unjoined operand",
          "thorough": "L<=8 (3-letter) / L<=6 (4-letter); producers L<=5"}


def shards(tier):
    lmax = 6 if tier == "quick" else 8
    out = [{"dt": dt, "lmax": (lmax if len(ALPH[dt]) <= 3 else lmax - 1)} for dt in ALPH]
    out += [{"prod": L} for L in range(1, (4 if tier == "quick" else 5) + 1)]
    return out


def cases(shard, tier):
    if "dt" in shard:
        dt, al = shard["dt"], ALPH[shard["dt"]]
        for L in range(1, shard["lmax"] + 1):
            for t in itertools.product(range(len(al)), repeat=L):
                yield ["enc", dt, list(t)]
    else:
        L = shard["prod"]
        for t in itertools.product(range(3), repeat=L):
            yield ["prod", list(t)]


def check(case, acc):
    if case[0] == "enc":
        return _check_enc(case, acc)
    return _check_prod(case, acc)


def _check_enc(case, acc):
    from npstructures import RunLengthArray
    _, dt, t = case
    a = np.array([ALPH[dt][i] for i in t], dtype=dt)
    L = len(a)
    runs = 1 + sum(1 for x, y in zip(t, t[1:]) if x != y)
    if runs == 1:
        acc.feature("single_run")
    if runs == L and L > 1:
        acc.feature("all_different")
    if runs >= 2:
        acc.nontrivial()
    if a.dtype.kind == "f" and np.isnan(a).any():
        acc.feature("nan_values")
    if a.dtype.kind == "f" and np.signbit(a[a == 0]).any():
        acc.feature("signed_zero")
    r = attempt(lambda: RunLengthArray.from_array(a.copy()))
    acc.trans()
    acc.state(("enc", dt, tuple(t)))
    if is_refused(r):
        acc.fail("encode-refused", "encoded", r)
        return
    c = attempt(lambda: canon_violation(r, joined=True))
    acc.trans()
    if c is not None:
        acc.fail("noncanonical-encoding", None, c)
    exp = dense_obs(a)
    for name, f in (("to_array", lambda: decode(RunLengthArray.from_array(a.copy()))), ("np.asarray", lambda: np.asarray(RunLengthArray.from_array(a.copy())))):
        o = attempt(lambda: dense_obs(f()))
        acc.trans()
        acc.outcome(o)
        if o != exp:
            acc.fail(f"{name}-differs", exp, o)
    # decoding twice: what the caller does to the first decoded array (sorting it, overwriting it) must not show in the second
    def twice():
        x = RunLengthArray.from_array(a.copy())
        d1 = np.asarray(x.to_array())
        if d1.flags.writeable and d1.size:
            d1[...] = d1[::-1].copy()
            d1[0] = d1[-1]
        return (dense_obs(decode(x)), dense_obs(np.asarray(x)))
    o = attempt(twice)
    acc.trans()
    acc.feature("decoded_twice")
    if o != (exp, exp):
        acc.fail("second-decode-differs", (exp, exp), o)
    # the same values handed over in other memory layouts (views of a larger buffer): reversed, every other cell, a matrix column
    if L:
        acc.feature("input_not_contiguous")
        big = np.zeros((L, 2), dtype=a.dtype)
        big[:, 0] = a
        for lname, view in (("reversed", lambda: a[::-1].copy()[::-1]), ("strided", lambda: np.repeat(a, 2)[::2]), ("column", lambda: big.copy()[:, 0])):
            v = view()
            o = attempt(lambda: dense_obs(decode(RunLengthArray.from_array(v))))
            acc.trans()
            if o != exp:
                acc.fail(f"from_array({lname} view)-differs", exp, o)
            cv = attempt(lambda: canon_violation(RunLengthArray.from_array(view()), joined=True))
            if cv is not None:
                acc.fail("noncanonical-encoding", (lname, None), cv)
    meta = attempt(lambda: (int(len(r)), int(r.size), tuple(int(x) for x in r.shape), str(r.dtype)))
    acc.trans()
    if meta != (L, L, (L,), str(a.dtype)):
        acc.fail("length-size-shape-dtype-differ", (L, L, (L,), str(a.dtype)), meta)
    if not np.array_equal(a, np.array([ALPH[dt][i] for i in t], dtype=dt), equal_nan=True):
        acc.fail("input-modified", None, None)


def _prod_check(acc, name, f, expected, joined):
    from npstructures import RunLengthArray
    r = attempt(f)
    acc.trans()
    if is_refused(r):
        acc.fail(f"{name}-refused", dense_obs(expected, dt=False), r)
        return
    if not is_rla(r):
        acc.fail(f"{name}-not-run-length", "RunLengthArray", type(r).__name__)
        return
    c = attempt(lambda: canon_violation(r, joined=joined))
    if c is not None:
        acc.fail(f"{name}-noncanonical", None, c)
        return
    o = attempt(lambda: dense_obs(decode(r), dt=False))
    acc.outcome((name, o))
    if o != dense_obs(expected, dt=False):
        acc.fail(f"{name}-decodes-wrong", dense_obs(expected, dt=False), o)
    if len(expected) > 1 and len(np.asarray(r.values)) < len(expected) and joined:
        acc.feature("result_needed_rejoin")


def _check_prod(case, acc):
    from npstructures import RunLengthArray
    t = case[1]
    a = np.array(t, dtype=np.int64)
    L = len(a)
    mk = lambda x=a: RunLengthArray.from_array(x.copy())
    acc.state(("prod", tuple(t)))
    if len(set(t)) > 1:
        acc.nontrivial()
    rng = [None] + list(range(-L, L + 1))
    for st in rng:
        for sp in rng:
            for step in (None, 1, 2, 3, -1, -2, -3):
                e = a[slice(st, sp, step)]
                if len(e) == 0:
                    continue
                stepped = step not in (None, 1)
                acc.feature("producer_step" if stepped else "producer_slice")
                _prod_check(acc, "stepped-slice" if stepped else "slice", lambda: mk()[slice(st, sp, step)], e, joined=stepped)
    # stepped slices of an operand whose own runs are not joined (the result of a scalar ufunc keeps its operand's boundaries)
    half = lambda: mk() // 2
    for st, sp, step in ((None, None, 2), (None, None, -2), (1, None, 2), (None, None, 3), (None, -1, 2), (None, None, -1), (0, L, 1)):
        e = (a // 2)[slice(st, sp, step)]
        if len(e):
            acc.feature("producer_step_of_unjoined_operand")
            _prod_check(acc, "stepped-slice-of-unjoined-operand", lambda: half()[slice(st, sp, step)], e, joined=(step not in (None, 1)))
    for name, f, e in (("scalar-add", lambda: mk() + 1, a + 1), ("scalar-radd", lambda: 1 + mk(), 1 + a), ("unary-neg", lambda: -mk(), -a),
                       ("scalar-eq", lambda: mk() == 1, a == 1)):
        _prod_check(acc, name, f, e, joined=False)
    # both operands derived from ONE encoded array by scalar / unary arithmetic (they may share its boundary array object): joined all the same
    acc.feature("producer_binary_of_derived_operands")
    for name, fd, e in (("max(x//2, x//3)", lambda x: np.maximum(x // 2, x // 3), np.maximum(a // 2, a // 3)),
                        ("(x>0)|(x<2)", lambda x: (x > 0) | (x < 2), (a > 0) | (a < 2)),
                        ("x==x", lambda x: x == x, a == a),
                        ("(x*2)-(x+x)", lambda x: (x * 2) - (x + x), (a * 2) - (a + a)),
                        ("(x+1)*(x//2)", lambda x: (x + 1) * (x // 2), (a + 1) * (a // 2))):
        _prod_check(acc, "binary-of-derived:" + name, lambda: fd(mk()), e, joined=True)
    if L <= 3:
        for t2 in itertools.product(range(3), repeat=L):
            b = np.array(t2, dtype=np.int64)
            acc.feature("producer_binary")
            for uname, u in (("add", np.add), ("maximum", np.maximum), ("equal", np.equal), ("multiply", np.multiply)):
                _prod_check(acc, f"binary-{uname}", lambda: u(mk(), mk(b)), u(a, b), joined=True)
        # float operands with NaN / inf: a boundary shared by both operands where the result is NaN (NaN != NaN) must not leave an empty run
        fv = np.array([float("nan"), float("inf"), 1.0])
        fa = fv[a % 3]
        for t2 in itertools.product(range(3), repeat=L):
            fb = fv[np.array(t2)]
            acc.feature("producer_binary_nan")
            for uname, u in (("add", np.add), ("subtract", np.subtract), ("maximum", np.maximum)):
                with np.errstate(all="ignore"):
                    e = u(fa, fb)
                _prod_check(acc, f"binary-{uname}-nan", lambda: u(mk(fa), mk(fb)), e, joined=True)
        for L2 in (1, 2):
            for t2 in itertools.product(range(3), repeat=L2):
                b = np.array(t2, dtype=np.int64)
                acc.feature("producer_concat")
                _prod_check(acc, "concatenate", lambda: np.concatenate([mk(), mk(b)]), np.concatenate([a, b]), joined=False)
                _prod_check(acc, "concatenate3", lambda: np.concatenate([mk(b), mk(), mk(b)]), np.concatenate([b, a, b]), joined=False)
    for m in itertools.product([False, True], repeat=L):
        mm = np.array(m)
        if not mm.any():
            continue
        acc.feature("producer_mask")
        _prod_check(acc, "run-length-mask", lambda: mk()[RunLengthArray.from_array(mm)], a[mm], joined=False)
