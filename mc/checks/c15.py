"""C15 -- indexing a run-length array equals indexing the dense array (Mode I)."""
import itertools
import numpy as np
from mc.norm import attempt, is_refused, pyval
from mc.rla_util import canon_violation, dense_obs, decode, is_rla

PROP = "C15"
RULE = ("cases = (encoded array, index) for every array of length 1..L over {0,1,2} and every index of the listed kinds, enumerated completely; "
        "oracle = the same index applied to the dense array; non-trivial = the array has at least two runs and the result is non-empty")
ASSUMPTIONS = ["oracle: numpy indexing of the dense array; values only", "out-of-range integers are outside the statement and not issued",
               "results that are run-length arrays must also satisfy the constructor invariant (C14)"]
REQUIRED_FEATURES = ["negative_int", "bound_beyond_end", "negative_step", "empty_result", "rl_mask", "rl_mask_not_canonical", "dense_mask", "list_of_bools_mask", "small_index_dtype", "slice_of_empty_or_single_result", "index_inside_tuple", "boolean_receiver", "window_pair", "list_with_repeats", "close_float_values",
                     "step_larger_than_run"]
BOUNDS = {"quick": "all arrays over {0,1,2} of length 1..4 and those of length 5 starting with 0 x {every int in [-L,L-1]; every list of length<=2; every dense and run-length mask; every slice with "
                   "start,stop in {None} u [-(L+2),L+2] and step in {None,+-1,+-2,+-3,+-4}; every vector of 1-2 windows}; list-of-bools masks; close-float arrays; two 40-element arrays; 100- and 200-element arrays indexed in int8 / uint8 / int16 / int32",
          "thorough": "length 1..6 over {0,1,2} (first element fixed to 0 for L>=5) and {0,1} up to L=8"}
STEPS = (None, 1, 2, 3, 4, -1, -2, -3, -4)


def shards(tier):
    out = []
    lmax = 5 if tier == "quick" else 6
    for L in range(1, lmax + 1):
        for t in itertools.product(range(3), repeat=L):
            if L >= 5 and t[0] != 0:
                continue
            out.append({"a": list(t)})
    # float arrays over values that are different but "close" (1.0 vs 1.0000001, 0.0 vs 1e-9): runs must only join on ==
    for L in (2, 3, 4):
        for t in itertools.product(range(4), repeat=L):
            if L == 4 and t[0] != 0:
                continue
            out.append({"a": list(t), "slim": 1, "vals": "close"})
    # two 40-element arrays with long and short runs (size / threshold effects), reduced slice grid
    out.append({"a": [0] * 9 + [1] * 1 + [2] * 14 + [0, 1, 0, 1] + [2] * 12, "slim": 1})
    out.append({"a": [(i * 7 // 5) % 3 for i in range(40)], "slim": 1})
    # positions handed over in small integer dtypes on arrays whose length is close to that dtype's range
    out.append({"a": [(i * 3 // 7) % 3 for i in range(100)], "smalldt": 1})
    out.append({"a": [(i * 5 // 11) % 3 for i in range(200)], "smalldt": 1})
    if tier != "quick":
        for L in (7, 8):
            for t in itertools.product(range(2), repeat=L):
                if t[0] == 0:
                    out.append({"a": list(t), "slim": 1})
    return out


CLOSE = [0.0, 1e-9, 1.0, 1.0000001]


def cases(shard, tier):
    t = shard["a"]
    L = len(t)
    if shard.get("smalldt"):
        for dt in ("int8", "uint8", "int16", "int32"):
            hi = int(np.iinfo(dt).max)
            if L - 1 > hi:
                # the array is longer than the index type can count: the positions the type CAN express are still valid indices
                pos = [0, 27, 28, hi, 1]
                if np.dtype(dt).kind == "i":
                    pos += [-1, -28, int(np.iinfo(dt).min)] if -L <= int(np.iinfo(dt).min) else [-1, -28]
                yield [t, ["arrdt", pos, dt]]
                yield [t, ["arrdt", [5, 7], dt]]
                for i in pos:
                    yield [t, ["intdt", i, dt]]
                continue
            pos = [0, 27, 28, L // 2, L - 1, L - 100, 1]
            if np.dtype(dt).kind == "i" and -L >= int(np.iinfo(dt).min):
                pos += [-1, -L, -28]
            yield [t, ["arrdt", pos, dt]]
            for i in pos:
                yield [t, ["intdt", i, dt]]
        return
    if shard.get("vals") == "close":
        rng = [None, -L, -1, 0, 1, L]
        for st in rng:
            for sp in rng:
                for step in (None, 2, 3, -1, -2, -3):
                    yield [t, ["slice", st, sp, step], "close"]
        for m in itertools.product([0, 1], repeat=L):
            yield [t, ["rlmask", list(m)], "close"]
        return
    for i in range(-L, L):
        yield [t, ["int", i]]
    rng = [None] + list(range(-(L + 2), L + 3))
    if shard.get("slim"):
        rng = [None, -(L + 1), -L, -2, -1, 0, 1, 2, L - 1, L, L + 1]
    for st in rng:
        for sp in rng:
            for step in STEPS:
                yield [t, ["slice", st, sp, step]]
    if shard.get("slim") and L == 40:
        # steps at and beyond the 32-bit range (at most one element per run survives)
        for step in (2 ** 31 - 1, 2 ** 31, 2 ** 40, -2 ** 31, -2 ** 35, 2 ** 31 - L):
            for st, sp in ((None, None), (3, 11), (-5, None), (None, 2), (L - 1, None)):
                yield [t, ["slice", st, sp, step]]
    if shard.get("slim"):
        return
    for k in (0, 1, 2):
        for idx in itertools.product(range(-L, L), repeat=k):
            yield [t, ["list", list(idx)]]
            if k == 2:
                yield [t, ["arr", list(idx)]]
    for m in itertools.product([0, 1], repeat=L):
        yield [t, ["mask", list(m)]]
        yield [t, ["listmask", list(m)]]
        yield [t, ["rlmask", list(m)]]
        yield [t, ["rlmask_cmp", list(m)]]
    wins = [(s, e) for s in range(L) for e in range(s + 1, L + 1)]
    for k in (1, 2):
        for w in itertools.product(wins, repeat=k):
            yield [t, ["win", [list(x) for x in w]]]
    # empty windows (start == stop), also at position 0 and at the end, alone and next to a non-empty one
    for s in range(L + 1):
        yield [t, ["win", [[s, s]]]]
        yield [t, ["win", [[0, L], [s, s]]]]
        yield [t, ["win", [[s, s], [0, L]]]]
    if L == 4:
        # three windows in every order (a permutation applied twice is the identity for <= 2 windows, not for a 3-cycle)
        for w in itertools.permutations([(0, 2), (1, 4), (2, 3), (3, 4)], 3):
            yield [t, ["win", [list(x) for x in w]]]


def check(case, acc):
    from npstructures import RunLengthArray
    t, idx = case[:2]
    if len(case) > 2:
        acc.feature("close_float_values")
        a = np.array([CLOSE[i] for i in t], dtype=np.float64)
    else:
        a = np.array(t, dtype=np.int64)
    L = len(a)
    r = RunLengthArray.from_array(a.copy())
    kind = idx[0]
    runs = 1 + sum(1 for x, y in zip(t, t[1:]) if x != y)
    if kind == "int":
        if idx[1] < 0:
            acc.feature("negative_int")
        exp = ("S", pyval(a[idx[1]]))
        f = lambda: ("S", pyval(np.asarray(r[idx[1]])[()]))
        f2 = lambda: ("S", pyval(np.asarray(r[np.int64(idx[1])])[()]))
    elif kind == "slice":
        s = slice(idx[1], idx[2], idx[3])
        e = a[s]
        if any(b is not None and not -L <= b <= L for b in (idx[1], idx[2])):
            acc.feature("bound_beyond_end")
        if idx[3] is not None and idx[3] < 0:
            acc.feature("negative_step")
        if idx[3] is not None and abs(idx[3]) > 1 and runs < L:
            acc.feature("step_larger_than_run")
        if len(e) == 0:
            acc.feature("empty_result")
        exp = dense_obs(e, dt=False)
        f = lambda: _rla_obs(r[s], joined=(idx[3] not in (None, 1)))
        f2 = None
        if len(e) == 0 or len(e) == 1:
            # the result itself sliced again (an array with no run / one element is a receiver like any other)
            acc.feature("slice_of_empty_or_single_result")
            for s2 in (slice(None), slice(None, None, 2), slice(-5, 50, -3)):
                o2 = attempt(lambda: _rla_obs(r[s][s2], joined=False))
                acc.trans()
                if o2 != dense_obs(e[s2], dt=False):
                    acc.fail("slice-of-slice-wrong", (idx, [s2.start, s2.stop, s2.step], dense_obs(e[s2], dt=False)), o2)
                    break
    elif kind in ("arrdt", "intdt"):
        acc.feature("small_index_dtype")
        if kind == "arrdt":
            sel = np.array(idx[1], dtype=idx[2])
            exp = dense_obs(a[np.array(idx[1], dtype=np.int64)], dt=False)
            f = lambda: dense_obs(np.asarray(r[sel]), dt=False)
        else:
            sc = np.dtype(idx[2]).type(idx[1])
            exp = ("S", pyval(a[idx[1]]))
            f = lambda: ("S", pyval(np.asarray(r[sc])[()]))
        f2 = None
    elif kind in ("list", "arr"):
        if len(set(i % L for i in idx[1])) < len(idx[1]):
            acc.feature("list_with_repeats")
        sel = list(idx[1]) if kind == "list" else np.array(idx[1], dtype=np.int64)
        e = a[np.array(idx[1], dtype=np.int64)]
        exp = dense_obs(e, dt=False)
        f = lambda: dense_obs(np.asarray(r[sel]), dt=False)
        f2 = None
    elif kind in ("mask", "listmask", "rlmask", "rlmask_cmp"):
        mm = np.array(idx[1], dtype=bool)
        e = a[mm]
        exp = dense_obs(e, dt=False)
        if len(e) == 0:
            acc.feature("empty_result")
        if kind == "mask":
            acc.feature("dense_mask")
            f = lambda: dense_obs(np.asarray(r[mm]), dt=False)
        elif kind == "listmask":
            acc.feature("list_of_bools_mask")       # numpy: a plain list of bools is a mask, not the positions 0 / 1
            f = lambda: dense_obs(np.asarray(r[[bool(b) for b in idx[1]]]), dt=False)
        elif kind == "rlmask":
            acc.feature("rl_mask")
            f = lambda: _rla_obs(r[RunLengthArray.from_array(mm)], joined=False)
        else:
            # the mask comes out of a comparison: neighbouring runs may share a truth value (every element its own run here)
            acc.feature("rl_mask_not_canonical")
            src = np.array([(i + 1) if b else -(i + 1) for i, b in enumerate(idx[1])], dtype=np.int64)
            f = lambda: _rla_obs(r[RunLengthArray.from_array(src) > 0], joined=False)
        f2 = None
        if kind in ("rlmask", "mask") and len(case) == 2:
            # a BOOLEAN receiver (neighbouring pieces of the result may hold the same truth value) under the same mask
            acc.feature("boolean_receiver")
            ab = a > 0
            rb = RunLengthArray.from_array(ab.copy())
            sel_b = RunLengthArray.from_array(mm) if kind == "rlmask" else mm
            ob = attempt(lambda: dense_obs(np.asarray(rb[sel_b].to_array() if kind == "rlmask" else rb[sel_b]), dt=False))
            acc.trans()
            if ob != dense_obs(ab[mm], dt=False):
                acc.fail("wrong-elements", ("boolean receiver", idx, dense_obs(ab[mm], dt=False)), ob)
    else:
        acc.feature("window_pair")
        ss = np.array([w[0] for w in idx[1]])
        ee = np.array([w[1] for w in idx[1]])
        exp = ("RR", tuple(tuple(a[s:e].tolist()) for s, e in idx[1]))
        f = lambda: ("RR", tuple(tuple(decode(row).tolist()) for row in r[ss:ee]))
        f2 = None
    if runs >= 2 and not (exp[0] == "A" and exp[2] == (0,)):
        acc.nontrivial()
    wrapped = []
    if kind in ("int", "list", "arr", "mask", "listmask", "slice") and len(case) == 2 and L <= 4:
        # the same index as the single entry of a tuple, and next to an Ellipsis (numpy: the same selection)
        acc.feature("index_inside_tuple")
        raw = {"int": lambda: idx[1], "list": lambda: list(idx[1]), "arr": lambda: np.array(idx[1], dtype=np.int64),
               "mask": lambda: np.array(idx[1], dtype=bool), "listmask": lambda: [bool(b) for b in idx[1]],
               "slice": lambda: slice(idx[1], idx[2], idx[3])}[kind]
        post = (lambda o: ("S", pyval(np.asarray(o)[()]))) if kind == "int" else \
            ((lambda o: _rla_obs(o, joined=(idx[3] not in (None, 1)))) if kind == "slice" else (lambda o: dense_obs(np.asarray(o), dt=False)))
        wrapped = [lambda: post(r[(raw(),)]), lambda: post(r[..., raw()]), lambda: post(r[raw(), ...])]
    for g in [f, f2] + wrapped:
        if g is None:
            continue
        o = attempt(g)
        acc.trans()
        acc.state((tuple(t), o))
        acc.outcome(o)
        if is_refused(o):
            acc.fail("valid-index-refused", exp, o, classifier=_classify(idx, L))
        elif o != exp:
            acc.fail("wrong-elements" if not (isinstance(o, tuple) and o and o[0] == "noncanonical") else "noncanonical-result", exp, o,
                     classifier=_classify(idx, L))
    post = attempt(lambda: decode(r).tolist())
    if post != a.tolist():
        acc.fail("operand-modified", a.tolist(), post)


def _rla_obs(x, joined):
    if not is_rla(x):
        return ("not-run-length", type(x).__name__)
    c = canon_violation(x, joined)
    if c:
        return ("noncanonical", c)
    return dense_obs(decode(x), dt=False)


def _classify(idx, L):
    if idx[0] == "slice":
        st, sp, step = idx[1:]
        neg = step is not None and step < 0
        if any(b is not None and (not -L <= b <= L or (neg and b == L)) for b in (st, sp)):
            return "c15.slice-bounds-not-clamped"
    return None
