"""C16 -- arithmetic on run-length arrays equals arithmetic on the dense arrays (Mode I)."""
import itertools
import numpy as np
from mc.norm import attempt, is_refused, pyval
from mc.rla_util import canon_violation, dense_obs, decode, is_rla

PROP = "C16"
RULE = ("cases = (pair of equal-length arrays, dtype pair, ufunc) for all arrays of length 1..L over 3 values per dtype -- which contains every relative "
        "alignment of the two run-boundary sets --, (array, scalar, side, ufunc), (array, unary ufunc), reductions, histogram, concatenation; oracle = numpy on "
        "the decoded operands (values and dtype); cases where numpy refuses the dense computation are undefined and skipped; non-trivial = both operands have >= 2 runs")
ASSUMPTIONS = ["numpy on the decoded arrays is the reference (NaN matches NaN)", "float values are dyadic; only correctly rounded float ufuncs",
               "results must satisfy the run-length constructor invariant; two-operand results must have adjacent runs joined"]
REQUIRED_FEATURES = ["boundaries_coincide", "boundaries_interleave", "boundaries_nested", "result_needs_rejoin", "scalar_left", "undefined_reference",
                     "histogram", "concatenate", "reduction", "reduction_of_unjoined_array", "same_left_operand_sequence", "close_values_beyond_2**53", "nan_operands", "signed_zeros"]
BOUNDS = {"quick": "all pairs of arrays L<=3 over 3 values x all pairs of {bool,int8,int64,uint8,float64} x 13 binary ufuncs; L=4 for int64 x int64 (5 ufuncs); "
                   "scalars {2, 2.5, True, np.int8(3), np.float32(1.5)} both sides x 13 ufuncs, 6 unary ufuncs, sum/any/all/max/mean, histogram (1-4 bins, with range), "
                   "concatenate of 2-3 arrays, for all arrays L<=4; int64 / uint64 neighbours beyond 2**53; NaN / inf operands; close floats; histogram with default bins and with density; reductions of unjoined arrays; sequences on one left operand incl. in-place",
          "thorough": "pairs L<=4 all dtype pairs, L<=5 for int64/float64/bool; singles L<=6"}
BINARY = ["add", "subtract", "multiply", "maximum", "minimum", "equal", "less", "bitwise_and", "bitwise_xor", "logical_and", "logical_or", "floor_divide", "true_divide"]
UNARY = ["negative", "absolute", "invert", "logical_not", "square", "sign"]
VALS = {"bool": [False, True], "int8": [-3, 0, 100], "int64": [0, 1, -2], "uint8": [0, 200, 3], "float64": [0.5, -1.0, 2.0]}
CLOSE = [1.0, 1.0000001, 1e-9]        # different but within np.isclose tolerance: results must only be joined on ==
SCALARS = [["py", 2], ["py", 2.5], ["py", True], ["int8", 3], ["float32", 1.5], ["float16", 1.5]]
FLOAT_EXCLUDED = {"floor_divide"}


def shards(tier):
    out = []
    lp = 3 if tier == "quick" else 4
    for d1 in VALS:
        for d2 in VALS:
            out.append({"pair": [d1, d2], "lmax": lp})
    out.append({"pair": ["int64", "int64"], "lmax": 4 if tier == "quick" else 5, "lmin": 4 if tier == "quick" else 5, "few": 1})
    if tier != "quick":
        out.append({"pair": ["float64", "float64"], "lmax": 5, "lmin": 5, "few": 1})
        out.append({"pair": ["bool", "bool"], "lmax": 5, "lmin": 5, "few": 1})
    for d1 in VALS:
        out.append({"single": d1, "lmax": 4 if tier == "quick" else 6})
    out.append({"single": "f64zero", "lmax": 4, "unary_only": 1})
    out.append({"pair": ["f16", "f16"], "lmax": 2, "ufs": ["add", "maximum", "less", "multiply"]})     # float16 operands and results
    out.append({"pair": ["int8", "f16"], "lmax": 2, "ufs": ["add", "maximum", "less", "multiply"]})      # +0.0 and -0.0 (equal under ==) with sign-sensitive unary ufuncs
    out.append({"medium": 1})
    out.append({"seq": 1})
    out.append({"pair": ["f64close", "f64close"], "lmax": 3, "few": 1})
    out.append({"pair": ["f64close", "int64"], "lmax": 2, "few": 1})
    # 64-bit values next to each other beyond 2**53: numpy compares int64 with uint64 exactly, not through float64
    # NaN / inf operands (NaN != NaN: a run boundary shared by both operands must still collapse), results that become NaN (inf - inf)
    for p in (["f64nan", "f64nan"], ["f64nan", "float64"], ["int64", "f64nan"]):
        out.append({"pair": p, "lmax": 3, "ufs": ["add", "subtract", "maximum", "multiply", "less", "equal"]})
    for p in (["i64big", "u64big"], ["u64big", "i64big"], ["u64big", "u64big"], ["i64big", "i64big"]):
        out.append({"pair": p, "lmax": 2, "ufs": ["equal", "not_equal", "less", "greater_equal", "maximum", "subtract", "bitwise_xor"]})
    return out


def cases(shard, tier):
    if "seq" in shard:
        for d1 in ("int64", "float64", "bool"):
            for L in (2, 3, 4):
                for t1 in itertools.product(range(len(VALS[d1])), repeat=L):
                    yield ["seq", d1, list(t1)]
        return
    if "medium" in shard:
        # 40-element operands with unrelated run boundaries (size / threshold effects)
        t1 = [0] * 9 + [1] * 1 + [2] * 14 + [0, 1, 0, 1] + [2] * 12
        t2 = [(i * 7 // 5) % 3 for i in range(40)]
        for d1 in ("int64", "int8", "float64"):
            for d2 in ("int64", "uint8", "float64"):
                for u in BINARY:
                    yield ["bin", d1, t1, d2, t2, u]
                    yield ["bin", d1, t2, d2, t1, u]
            for u in UNARY:
                yield ["un", d1, t1, u]
            for s in SCALARS:
                for u in ("subtract", "less", "multiply"):
                    yield ["sc", d1, t2, s, u, "L"]
            for name in ("sum", "any", "all", "max", "mean"):
                yield ["red", d1, t2, name]
        return
    if "pair" in shard:
        d1, d2 = shard["pair"]
        ufs = shard.get("ufs") or (BINARY if not shard.get("few") else ["add", "maximum", "equal", "subtract", "logical_and"])
        nv = lambda d: 3 if d in ("f64close", "i64big", "u64big", "f64nan", "f16") else len(VALS[d])
        for L in range(shard.get("lmin", 1), shard["lmax"] + 1):
            for t1 in itertools.product(range(nv(d1)), repeat=L):
                for t2 in itertools.product(range(nv(d2)), repeat=L):
                    for u in ufs:
                        yield ["bin", d1, list(t1), d2, list(t2), u]
        return
    d1 = shard["single"]
    if shard.get("unary_only"):
        for L in range(1, shard["lmax"] + 1):
            for t1 in itertools.product(range(3), repeat=L):
                for u in ("signbit", "negative", "reciprocal", "sign", "absolute"):
                    yield ["un", d1, list(t1), u]
        return
    for L in range(1, shard["lmax"] + 1):
        for t1 in itertools.product(range(len(VALS[d1])), repeat=L):
            if L > 4 and t1[0] != 0:
                continue
            for u in UNARY:
                yield ["un", d1, list(t1), u]
            for s in SCALARS:
                for u in BINARY:
                    for side in "LR":
                        yield ["sc", d1, list(t1), s, u, side]
            for name in ("sum", "any", "all", "max", "mean"):
                yield ["red", d1, list(t1), name]
            if d1 == "int64" and L >= 2:
                yield ["red", "int64big", list(t1), "mean"]
                yield ["red", "int64big", list(t1), "max"]
            if d1 in ("int64", "bool", "float64") and L >= 2:
                for how in ("gt_low", "gt_high", "times0", "cat_self", "ne_first"):
                    for name in ("sum", "any", "all", "max", "mean"):
                        yield ["red2", d1, list(t1), name, how]
            for bins in (1, 2, 3, 4):
                yield ["hist", d1, list(t1), bins, None]
            yield ["hist", d1, list(t1), 3, [-1.0, 3.0]]
            yield ["hist", d1, list(t1), None, None]
            yield ["hist", d1, list(t1), 2, [-1.0, 3.0], "density"]       # density, with elements outside the range for some alphabets
            yield ["hist", d1, list(t1), 3, [0.5, 1.5], "density"]
            yield ["hist", d1, list(t1), [0, 1, 4], None, "density"]      # explicit, unequal bin edges
            if L <= 3:
                for L2 in (1, 2):
                    for t2 in itertools.product(range(len(VALS[d1])), repeat=L2):
                        yield ["cat", d1, list(t1), list(t2)]


def _arr(dt, t):
    if dt == "f64close":
        return np.array([CLOSE[i % 3] for i in t], dtype=np.float64)
    if dt == "f16":
        return np.array([[0.5, -1.0, 2.0][i % 3] for i in t], dtype=np.float16)
    if dt == "f64zero":
        return np.array([[0.0, 1.5, -0.0][i % 3] for i in t], dtype=np.float64)
    if dt == "f64nan":
        return np.array([[float("nan"), float("inf"), 1.0][i % 3] for i in t], dtype=np.float64)
    if dt == "i64big":
        acc_big = [2 ** 62 + 1, 2 ** 62, -5]
        return np.array([acc_big[i % 3] for i in t], dtype=np.int64)
    if dt == "u64big":
        return np.array([[2 ** 62, 2 ** 62 + 1, 2 ** 64 - 1][i % 3] for i in t], dtype=np.uint64)
    if dt == "int64big":       # each value fits, their int64 sum does not
        return np.array([[2 ** 62, 2 ** 62 - 1, -(2 ** 62)][i % 3] for i in t], dtype=np.int64)
    return np.array([VALS[dt][i % len(VALS[dt])] for i in t], dtype=dt)


def _bounds(t):
    return {i for i in range(1, len(t)) if t[i] != t[i - 1]}


def _result_obs(x, joined):
    if not is_rla(x):
        return ("not-run-length", type(x).__name__)
    c = canon_violation(x, joined)
    if c:
        return ("noncanonical", c)
    return dense_obs(decode(x), dt=True)


def check(case, acc):
    from npstructures import RunLengthArray
    kind = case[0]
    d1, t1 = case[1], case[2]
    a = _arr(d1, t1)
    ra = RunLengthArray.from_array(a.copy())
    if d1 == "f64zero":
        # the statement speaks of the DECODED operand: encoding joins neighbours that are equal under ==, so of two adjacent zeros of
        # different sign only the first sign survives (C14 allows that: the decoded array equals the original element by element)
        acc.feature("signed_zeros")
        a = decode(ra).copy()
    joined = False
    if kind == "bin":
        d2, t2, u = case[3], case[4], case[5]
        b = _arr(d2, t2)
        rb = RunLengthArray.from_array(b.copy())
        b1, b2 = _bounds(t1), _bounds(t2)
        if b1 and b1 == b2:
            acc.feature("boundaries_coincide")
        if b1 and b2 and (b1 < b2 or b2 < b1):
            acc.feature("boundaries_nested")
        if (b1 - b2) and (b2 - b1):
            acc.feature("boundaries_interleave")
        if b1 and b2:
            acc.nontrivial()
        f = getattr(np, u)
        ref = lambda: f(a, b)
        run = lambda: f(ra, rb)
        joined = True
        excl = u in FLOAT_EXCLUDED and ("float64" in (d1, d2) or "f64close" in (d1, d2))
        if "f64nan" in (d1, d2):
            acc.feature("nan_operands")
        if "i64big" in (d1, d2) or "u64big" in (d1, d2):
            acc.feature("close_values_beyond_2**53")
    elif kind == "un":
        f = getattr(np, case[3])
        ref = lambda: f(a)
        run = lambda: f(ra)
        excl = False
        if _bounds(t1):
            acc.nontrivial()
    elif kind == "sc":
        sk, u, side = case[3], case[4], case[5]
        s = sk[1] if sk[0] == "py" else np.dtype(sk[0]).type(sk[1])
        f = getattr(np, u)
        if side == "L":
            acc.feature("scalar_left")
            ref = lambda: f(s, a)
            run = lambda: f(s, ra)
        else:
            ref = lambda: f(a, s)
            run = lambda: f(ra, s)
        excl = u in FLOAT_EXCLUDED and (d1 == "float64" or isinstance(s, (float, np.floating)))
        if _bounds(t1):
            acc.nontrivial()
    elif kind == "seq":
        return _check_seq(case, acc, a, ra)
    elif kind == "red":
        return _check_red(case, acc, a, ra)
    elif kind == "red2":
        # the reduced array is itself the result of an operation that keeps its operand's run boundaries (runs with equal values side by side)
        how = case[4]
        acc.feature("reduction_of_unjoined_array")
        with np.errstate(all="ignore"):
            try:
                if how == "gt_low":
                    da, rr = a > -1000, ra > -1000
                elif how == "gt_high":
                    da, rr = a > 1000, ra > 1000
                elif how == "times0":
                    da, rr = a * 0, ra * 0
                elif how == "ne_first":
                    da, rr = a != a[0], ra != a[0]
                else:
                    da, rr = np.concatenate([a, a]), np.concatenate([ra, RunLengthArray.from_array(a.copy())])
            except Exception:  # noqa: BLE001
                return acc.undefined()
        return _check_red(["red", d1, t1, case[3]], acc, da, rr)
    elif kind == "hist":
        return _check_hist(case, acc, a, ra)
    else:
        t2 = case[3]
        b = _arr(d1, t2)
        acc.feature("concatenate")
        rb2, ra2 = RunLengthArray.from_array(b.copy()), RunLengthArray.from_array(a.copy())
        derived = ra2 + 0          # shares whatever ra2 shares with its ufunc results
        ref = lambda: np.concatenate([a, b, a])
        run = lambda: np.concatenate([ra, rb2, ra2])
        excl = False
        acc.nontrivial()
    if excl:
        return acc.undefined()
    try:
        with np.errstate(all="ignore"):
            e = ref()
    except Exception:  # noqa: BLE001
        acc.feature("undefined_reference")
        return acc.undefined()
    exp = dense_obs(e, dt=True)
    o = attempt(lambda: _result_obs(run(), joined))
    acc.trans()
    acc.state((kind, o))
    acc.outcome(o)
    if joined and len(e) > 1 and np.any(e[1:] == e[:-1]):
        acc.feature("result_needs_rejoin")
    if is_refused(o):
        acc.fail("valid-operands-refused", exp, o)
    elif o != exp:
        if o[0] == "noncanonical":
            acc.fail("noncanonical-result", exp, o)
        elif o[0] == "A" and o[2:] == exp[2:]:
            acc.fail("wrong-result-dtype", exp, o)
        else:
            acc.fail("wrong-values", exp, o)
    post = attempt(lambda: dense_obs(decode(ra), dt=False))
    if post != dense_obs(a, dt=False):
        acc.fail("operand-modified", a.tolist(), post)
    if kind == "bin":
        post = attempt(lambda: dense_obs(decode(rb), dt=False))
        if post != dense_obs(b, dt=False):
            acc.fail("operand-modified", b.tolist(), post)
    if kind == "cat":
        for name, obj, dense in (("second", rb2, b), ("third", ra2, a), ("array derived from the third", derived, a)):
            o2 = attempt(lambda: decode(obj).tolist())
            if o2 != dense.tolist():
                acc.fail("operand-modified", (name, dense.tolist()), o2)


def _check_seq(case, acc, a, ra):
    """the SAME left operand object combined, one after the other, with every other array of its length (each right operand a
    temporary that dies before the next one is created), then the in-place spelling; every result is compared"""
    from npstructures import RunLengthArray
    import gc
    d1 = case[1]
    L = len(a)
    acc.feature("same_left_operand_sequence")
    acc.nontrivial()
    others = [_arr(d1, t2) for t2 in itertools.product(range(len(VALS[d1])), repeat=L)]
    for u in (np.add, np.maximum, np.logical_and):
        for b in others:
            try:
                e = u(a, b)
            except Exception:  # noqa: BLE001
                continue
            o = attempt(lambda: _result_obs(u(ra, RunLengthArray.from_array(b.copy())), True))
            acc.trans()
            if o != dense_obs(e, dt=True):
                acc.fail("wrong-values-in-a-sequence-on-one-left-operand", dense_obs(e, dt=True), o, note=u.__name__)
                return
        gc.collect()
    # in-place spelling: x += y rebinds x to the result (or updates it); either way x must decode to a + b afterwards
    for b in others[:6]:
        try:
            e = a + b
        except Exception:  # noqa: BLE001
            continue

        def inplace():
            x = RunLengthArray.from_array(a.copy())
            x += RunLengthArray.from_array(b.copy())
            return _result_obs(x, False)
        o = attempt(inplace)
        acc.trans()
        if o != dense_obs(e, dt=True):
            acc.fail("in-place-add-decodes-wrong", dense_obs(e, dt=True), o)
            return
    post = attempt(lambda: dense_obs(decode(ra), dt=False))
    if post != dense_obs(a, dt=False):
        acc.fail("operand-modified", a.tolist(), post)


def _check_red(case, acc, a, ra):
    name = case[3]
    acc.feature("reduction")
    try:
        e = getattr(np, name)(a)
    except Exception:  # noqa: BLE001
        return acc.undefined()
    f = (lambda: ra.max()) if name == "max" else (lambda: getattr(np, name)(ra))
    o = attempt(lambda: pyval(np.asarray(f())[()]))
    acc.trans()
    acc.outcome((name, o))
    ev = pyval(e)
    ok = (o == ev) or (name == "mean" and not isinstance(o, (str, tuple)) and abs(o - ev) <= 1e-15 * max(abs(o), abs(ev), 1e-300))
    if not ok:
        acc.fail("reduction-wrong", (name, ev), o)


def _check_hist(case, acc, a, ra):
    bins, rng = case[3], case[4]
    acc.feature("histogram")
    if a.dtype == np.bool_:
        return acc.undefined()
    kw = {"bins": bins} if bins is not None else {}       # None: numpy's default number of bins
    if rng is not None:
        kw["range"] = tuple(rng)
    if len(case) > 5:
        kw["density"] = True
    try:
        e = np.histogram(a, **kw)
    except Exception:  # noqa: BLE001
        return acc.undefined()
    o = attempt(lambda: tuple(tuple(pyval(v) for v in np.asarray(x)) for x in np.histogram(ra, **kw)))
    acc.trans()
    acc.outcome(("hist", o))
    exp = tuple(tuple(pyval(v) for v in x) for x in e)
    if o != exp:
        acc.fail("histogram-wrong", exp, o)
