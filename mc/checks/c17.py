"""C17 -- 2-D and ragged run-length arrays behave as one run-length array per row (Mode I)."""
import itertools
import numpy as np
from mc.norm import attempt, is_refused, pyval

PROP = "C17"
RULE = ("cases = (row-length vector with rows >= 1, run pattern, variant, operation group), enumerated completely, and from_intervals for every 1-3 "
        "intervals in rows of length <= 5; oracle = dense rows + numpy per row; one transition per operation; non-trivial = some row has >= 2 runs")
ASSUMPTIONS = ["oracle: dense Python rows and numpy applied per row / per column", "column slices are issued only in the class the statement admits: any "
               "positive-step slice, negative-step slices with bounds inside the rows, and a non-empty result in every selected row",
               "RunLength2dArray has no max / mean / argmax methods: those are explored on the ragged variant only"]
REQUIRED_FEATURES = ["variant_2d", "variant_ragged", "variant_ragged_from_matrix", "run_straddles_row_boundary", "single_run_row", "left_operand",
                     "column_operand", "neg_step_colslice", "from_intervals", "row_mask", "unequal_rows", "narrow_or_float_values", "binary_matrix", "row_mask_list_of_bools", "matrix_not_c_contiguous"]
BOUNDS = {"quick": "rows<=2 x len<=3 (+ (5,), (4,5), (5,3)) x 5 run patterns x {RunLength2dArray.from_array, RunLengthRaggedArray.from_ragged_array, "
                   ".from_array} x all listed operations; from_intervals: L<=4, <=2 intervals, 3 value kinds; list-of-bools / index-array / numpy-scalar row selectors, 1-tuple and Ellipsis spellings; column-major and strided matrices; int8 / uint8 / float / {1e16, inf} value tables; every binary 2x4, 3x3, 2x5 matrix",
          "thorough": "rows<=3 x len<=3 and rows<=2 x len<=5; from_intervals L<=5, <=3 intervals"}
PATS = [(0,), (0, 1), (1, 1, 0), (2, 0, 0, 1), (1, 2, 2, 2, 0)]
GROUPS = ["basic", "rowsel", "elem", "red", "col", "ufunc", "colint", "colslice"]
UFS = ["add", "subtract", "multiply", "less", "maximum", "floor_divide"]


def _lv(tier):
    if tier == "quick":
        vs = [list(v) for n in (1, 2) for v in itertools.product(range(1, 4), repeat=n)] + [[5], [4, 5], [5, 3]] + \
             [[2, 2, 4], [3, 1, 3, 5], [1, 1, 1], [2, 3, 2]]        # three / four rows, several of them equally long
    else:
        vs = [list(v) for n in (1, 2, 3) for v in itertools.product(range(1, 4), repeat=n)]
        vs += [list(v) for n in (1, 2) for v in itertools.product(range(1, 6), repeat=n) if max(v) > 3]
    return vs


def shards(tier):
    out = [{"lens": v, "pat": p} for v in _lv(tier) for p in range(len(PATS))]
    lmax = 4 if tier == "quick" else 5
    out += [{"iv": L} for L in range(1, lmax + 1)]
    out += [{"binmat": [2, 4]}, {"binmat": [3, 3]}, {"binmat": [2, 5]}]
    return out


def cases(shard, tier):
    if "binmat" in shard:
        r, c = shard["binmat"]
        for bits in itertools.product([0, 1], repeat=r * c):
            yield ["binmat", r, c, list(bits)]
        return
    if "iv" in shard:
        L = shard["iv"]
        ivs = [(s, e) for s in range(L) for e in range(s + 1, L + 1)]
        for k in ((1, 2) if tier == "quick" else (1, 2, 3)):
            for combo in itertools.product(ivs, repeat=k):
                for val in ("int", "bool", "float", "default"):
                    yield ["iv", L, [list(c) for c in combo], val]
        return
    lens, pat = shard["lens"], shard["pat"]
    variants = ["ragged"] + (["2d", "ragged_from_matrix"] if len(set(lens)) == 1 else [])
    for g in ("basic", "red", "col", "elem"):
        yield ["arr", lens, pat, "ragged_from_pending_view", g]
    if len(set(lens)) == 1:
        for v in ("2d_fortran", "2d_strided", "ragged_from_matrix_fortran"):
            for g in ("basic", "red", "col", "elem"):
                yield ["arr", lens, pat, v, g]
    for v in variants:
        for g in GROUPS:
            if v == "2d" and g in ("colint", "colslice"):
                continue
            yield ["arr", lens, pat, v, g]
        # narrow / unsigned element types with jumps that overflow the element type (differences, sums)
        for vk in ("i8", "u8", "f8"):
            for g in ("basic", "red", "col") + (("ufunc",) if vk == "i8" else ()):
                yield ["arr", lens, pat, v, g, vk]
        for g in ("basic", "red"):
            yield ["arr", lens, pat, v, g, "fbig"]


def fill(lens, pat):
    out, k = [], 0
    for l in lens:
        r = []
        for _ in range(l):
            r.append(pat[k % len(pat)])
            k += 1
        out.append(r)
    return out


def dense(x):
    n = type(x).__name__
    if n == "RunLengthArray":
        return [pyval(v) for v in x.to_array().tolist()]
    if n in ("RunLength2dArray", "RunLengthRaggedArray"):
        return [[pyval(v) for v in r.to_array().tolist()] for r in x]
    if n == "RaggedArray":
        return [[pyval(v) for v in r] for r in x.tolist()]
    if isinstance(x, np.ndarray):
        return x.tolist()
    if isinstance(x, np.generic):
        return x.item()
    if isinstance(x, (list, tuple)):
        return [dense(i) for i in x]
    return x


VALUE_KINDS = {"i64": (np.int64, None), "i8": (np.int8, [100, -100, -128, 127]), "u8": (np.uint8, [200, 3, 250, 0]), "f8": (np.float64, [0.5, -2.25, 8.0, 0.0]),
               "fbig": (np.float64, [1e16, 1.0, float("inf"), 0.25])}      # a row's result must not depend on the rows before it


def _mk(rows, variant, dt=np.int64):
    from npstructures import RunLength2dArray, RunLengthRaggedArray, RaggedArray
    if variant == "ragged":
        flat = np.array([v for r in rows for v in r], dtype=dt)
        return RunLengthRaggedArray.from_ragged_array(RaggedArray(flat, [len(r) for r in rows]))
    if variant == "ragged_from_pending_view":
        # the same rows handed over as a selection that nothing has read yet (reversed storage order, one extra row in front)
        back = [[7]] + rows[::-1]
        flat = np.array([v for r in back for v in r], dtype=dt)
        big = RaggedArray(flat, [len(r) for r in back])
        return RunLengthRaggedArray.from_ragged_array(big[:0:-1])
    if variant == "2d":
        return RunLength2dArray.from_array(np.array(rows, dtype=dt))
    if variant == "2d_fortran":            # the same matrix in column-major memory (what .T of a C matrix is)
        return RunLength2dArray.from_array(np.asfortranarray(np.array(rows, dtype=dt)))
    if variant == "2d_strided":            # ... as a view that skips every other column and row of a larger matrix
        m = np.array(rows, dtype=dt)
        big = np.full((2 * m.shape[0], 2 * m.shape[1]), 77, dtype=dt)
        big[::2, ::2] = m
        return RunLength2dArray.from_array(big[::2, ::2])
    if variant == "ragged_from_matrix_fortran":
        return RunLengthRaggedArray.from_array(np.asfortranarray(np.array(rows, dtype=dt)))
    return RunLengthRaggedArray.from_array(np.array(rows, dtype=dt))


def _cmp(acc, name, exp, f, close=False, may_refuse=False):
    o = attempt(lambda: dense(f()))
    acc.trans()
    acc.outcome((name, repr(o)))
    if may_refuse and is_refused(o):
        return
    if close and not is_refused(o):
        try:
            ok = np.allclose(np.array(o, dtype=float), np.array(exp, dtype=float), rtol=1e-12, atol=0) and np.shape(o) == np.shape(exp)
        except Exception:  # noqa: BLE001
            ok = False
    else:
        ok = (o == exp)
    if not ok:
        acc.fail(name, exp, o)
    return ok


def _rowsel(n):
    for i in range(-n, n):
        yield i
    for s in (slice(None), slice(1, None), slice(None, -1), slice(None, None, 2), slice(None, None, -1)):
        yield s
    for k in (1, 2):
        for t in itertools.product(range(n), repeat=k):
            yield list(t)
    for m in itertools.product([False, True], repeat=n):
        if any(m):
            yield np.array(m)
            yield ("lb", list(m))           # the same mask as a plain list of bools
    for i in range(-n, n):
        yield np.int64(i)
    for t in itertools.product(range(-n, n), repeat=2):
        yield ("ia", list(t))               # integer index array


def _sel(rs):
    if isinstance(rs, tuple):
        return [bool(b) for b in rs[1]] if rs[0] == "lb" else np.array(rs[1], dtype=np.int64)
    return rs


def _ref_rows(rows, rs):
    if isinstance(rs, tuple):
        return [r for r, m in zip(rows, rs[1]) if m] if rs[0] == "lb" else [rows[i] for i in rs[1]]
    if isinstance(rs, (int, np.integer)):
        return rows[rs]
    if isinstance(rs, slice):
        return rows[rs]
    if isinstance(rs, np.ndarray):
        return [r for r, m in zip(rows, rs) if m]
    return [rows[i] for i in rs]


def _check_binmat(case, acc):
    from npstructures import RunLength2dArray
    _, r, c, bits = case
    acc.feature("binary_matrix")
    mat = np.array(bits, dtype=np.int64).reshape(r, c)
    if mat.any() and not mat.all():
        acc.nontrivial()
    acc.state(("binmat", r, c, tuple(bits)))
    mk = lambda: RunLength2dArray.from_array(mat.copy())
    _cmp(acc, "any(axis=0)", [bool(x) for x in mat.any(axis=0)], lambda: mk().any(axis=0))
    _cmp(acc, "sum(axis=0)", mat.sum(axis=0).tolist(), lambda: mk().sum(axis=0))
    _cmp(acc, "any(axis=-1)", [bool(x) for x in mat.any(axis=-1)], lambda: mk().any(axis=-1))
    _cmp(acc, "decode", mat.tolist(), lambda: mk().to_array())


def check(case, acc):
    if case[0] == "binmat":
        return _check_binmat(case, acc)
    if case[0] == "iv":
        return _check_iv(case, acc)
    _, lens, pat, variant, group = case[:5]
    vk = case[5] if len(case) > 5 else "i64"
    dt, table = VALUE_KINDS[vk]
    rows = fill(lens, PATS[pat])
    if table is not None:
        acc.feature("narrow_or_float_values")
        rows = [[table[v] for v in r] for r in rows]
    n = len(rows)
    acc.feature("variant_" + variant)
    flatv = [v for r in rows for v in r]
    p = 0
    for l in lens[:-1]:
        p += l
        if flatv[p - 1] == flatv[p]:
            acc.feature("run_straddles_row_boundary")
    if any(len(set(r)) == 1 for r in rows):
        acc.feature("single_run_row")
    if len(set(lens)) > 1:
        acc.feature("unequal_rows")
    if variant.endswith("fortran") or variant.endswith("strided"):
        acc.feature("matrix_not_c_contiguous")
    if any(len(set(r)) > 1 for r in rows):
        acc.nontrivial()
    mk = lambda: _mk(rows, variant, dt)
    acc.state((tuple(lens), pat, variant, vk))
    arr = [np.array(r, dtype=dt) for r in rows]
    m = max(lens)
    cols = [[r[j] for r in rows if len(r) > j] for j in range(m)]
    if group == "basic":
        _cmp(acc, "decode", rows, lambda: mk().to_array())
        _cmp(acc, "len", n, lambda: len(mk()))
        _cmp(acc, "shape[0]", n, lambda: mk().shape[0])
        if variant.startswith("2d"):
            _cmp(acc, "shape[1]", lens[0], lambda: int(mk().shape[1]))
        else:
            _cmp(acc, "shape[1]", list(lens), lambda: [int(x) for x in np.broadcast_to(np.asarray(mk().shape[1]), (n,))])
        _cmp(acc, "size", sum(lens), lambda: int(mk().size))
        if (not variant.startswith("2d")):
            _cmp(acc, "ravel", flatv, lambda: mk().ravel())
            _cmp(acc, "concatenate", rows + rows, lambda: np.concatenate([mk(), mk()]))
    elif group == "rowsel":
        for rs in _rowsel(n):
            if isinstance(rs, np.ndarray):
                acc.feature("row_mask")
            if isinstance(rs, tuple) and rs[0] == "lb":
                acc.feature("row_mask_list_of_bools")
            _cmp(acc, f"rows[{type(rs).__name__ if not isinstance(rs, tuple) else rs[0]}]", _ref_rows(rows, rs), lambda: mk()[_sel(rs)])
            if isinstance(rs, (int, slice)):
                # the same row selection spelled as a 1-tuple and with a trailing Ellipsis
                _cmp(acc, "rows[(sel,)]", _ref_rows(rows, rs), lambda: mk()[(_sel(rs),)])
                if isinstance(rs, int) or not variant.startswith("2d"):       # (the matrix variant has no column ranges, and [rows, ...] is one)
                    _cmp(acc, "rows[sel, ...]", _ref_rows(rows, rs), lambda: mk()[_sel(rs), ...])
    elif group == "elem":
        for i in range(n):
            for j in range(-lens[i], lens[i]):
                _cmp(acc, "element", rows[i][j], lambda: mk()[i, j])
    elif group == "red":
        names = ["sum", "any", "all"] + ([] if variant.startswith("2d") else ["max", "mean", "argmax"])
        for name in names:
            e = [getattr(np, name)(a).item() for a in arr]
            _cmp(acc, f"{name}(axis=-1)", e, lambda: getattr(mk(), name)(axis=-1), close=True)
            _cmp(acc, f"{name}(axis=1)", e, lambda: getattr(mk(), name)(axis=1), close=True, may_refuse=True)   # same axis, other spelling
        if (not variant.startswith("2d")):
            for fn in ("sum", "mean", "max"):
                e = [getattr(np, fn)(a).item() for a in arr]
                _cmp(acc, f"np.{fn}(axis=-1)", e, lambda: getattr(np, fn)(mk(), axis=-1), close=True)
    elif group == "col":
        _cmp(acc, "sum(axis=0)", [sum(c) for c in cols], lambda: mk().sum(axis=0), close=(vk == "f8"))
        if (not variant.startswith("2d")):
            _cmp(acc, "mean(axis=0)", [float(np.mean(c)) for c in cols], lambda: mk().mean(axis=0), close=True)
            _cmp(acc, "col_counts", [len(c) for c in cols], lambda: mk().col_counts())
        else:
            _cmp(acc, "any(axis=0)", [bool(any(c)) for c in cols], lambda: mk().any(axis=0))
    elif group == "ufunc":
        for uf in (np.negative, np.square):
            _cmp(acc, uf.__name__, [uf(a).tolist() for a in arr], lambda: uf(mk()))
        # a float ufunc (the result of int8 data is float16, of int64 data float64): decoded like any other
        with np.errstate(all="ignore"):
            _cmp(acc, "sqrt(abs(x // 2))", [np.sqrt(np.abs(a // 2)).tolist() for a in arr], lambda: np.sqrt(np.abs(mk() // 2)))
        # a float column on integer data: the column must not be cast to the run values' dtype
        fcv = (np.arange(1, n + 1) + 0.5)[:, None]
        for un in ("add", "multiply", "less", "subtract"):
            uf = getattr(np, un)
            for side in "LR":
                e = [(uf(a, fcv[i, 0]) if side == "R" else uf(fcv[i, 0], a)).tolist() for i, a in enumerate(arr)]
                _cmp(acc, f"{un}(float column,{side})", e, lambda: uf(mk(), fcv) if side == "R" else uf(fcv, mk()))
            e = [(uf(a, 2.5)).tolist() for a in arr]
            _cmp(acc, f"{un}(float scalar)", e, lambda: uf(mk(), 2.5))
            # numpy scalars / 0-d arrays wider than the run values take part in the type promotion (100 + int8 data as int64 does not wrap)
            for sname, sc in (("np.int64", np.int64(100)), ("0-d int64", np.array(100)), ("np.float64", np.float64(0.1)), ("np.int16", np.int16(100))):
                for side in "LR":
                    with np.errstate(all="ignore"):
                        e = [(uf(a, sc) if side == "R" else uf(sc, a)).tolist() for a in arr]
                    _cmp(acc, f"{un}({sname} scalar,{side})", e, lambda: uf(mk(), sc) if side == "R" else uf(sc, mk()))
        cv = np.arange(1, n + 1)[:, None]
        for un in UFS:
            uf = getattr(np, un)
            for side in "LR":
                if side == "L":
                    acc.feature("left_operand")
                e = [(uf(a, 3) if side == "R" else uf(3, a)).tolist() for a in arr]
                _cmp(acc, f"{un}(scalar,{side})", e, lambda: uf(mk(), 3) if side == "R" else uf(3, mk()))
                acc.feature("column_operand")
                e = [(uf(a, cv[i, 0]) if side == "R" else uf(cv[i, 0], a)).tolist() for i, a in enumerate(arr)]
                _cmp(acc, f"{un}(column,{side})", e, lambda: uf(mk(), cv) if side == "R" else uf(cv, mk()))
    elif group in ("colint", "colslice"):
        rsels = [slice(None), slice(None, None, -1), [0], list(range(n))[::-1]]
        if n >= 2:
            rsels += [[n - 1], slice(1, None), np.arange(n) >= 1]      # selections that leave out a (possibly shorter) FIRST row
        for rs in rsels:
            sel = _ref_rows(rows, rs)
            mn = min(len(r) for r in sel)
            if group == "colint":
                for j in range(-mn, mn):
                    _cmp(acc, "rows,column-int", [r[j] for r in sel], lambda: mk()[rs, j])
                    _cmp(acc, "rows,column-np.int64", [r[j] for r in sel], lambda: mk()[rs, np.int64(j)])
                    if isinstance(rs, slice) and rs == slice(None):
                        _cmp(acc, "[..., column-int]", [r[j] for r in sel], lambda: mk()[..., j])
                continue
            rng = [None] + list(range(-m - 1, m + 2))
            for st in rng:
                for sp in rng:
                    for step in (None, 1, 2, 3, -1, -2, -3):
                        s = slice(st, sp, step)
                        e = [r[s] for r in sel]
                        if any(len(x) == 0 for x in e):
                            continue
                        if (step or 1) < 0:
                            inside = lambda b: b is None or all(-len(r) <= b < len(r) for r in sel)
                            if not (inside(st) and inside(sp)):
                                continue
                            acc.feature("neg_step_colslice")
                        _cmp(acc, "rows,column-slice(neg)" if (step or 1) < 0 else "rows,column-slice(pos)", e, lambda: mk()[rs, s])


def _check_iv(case, acc):
    from npstructures import RunLength2dArray
    _, L, combo, vk = case
    acc.feature("from_intervals")
    val = {"int": 1, "bool": True, "float": 2.5, "default": 1}[vk]
    st = np.array([c[0] for c in combo])
    en = np.array([c[1] for c in combo])
    e = [[(val if s <= j < e_ else 0) for j in range(L)] for s, e_ in combo]
    acc.nontrivial()
    acc.state(("iv", L, tuple(map(tuple, combo)), vk))
    if vk == "default":
        _cmp(acc, "from_intervals(default value)", e, lambda: RunLength2dArray.from_intervals(st, en, L))
        return
    _cmp(acc, "from_intervals", e, lambda: RunLength2dArray.from_intervals(st, en, L, val))
    _cmp(acc, "from_intervals-len", len(combo), lambda: len(RunLength2dArray.from_intervals(st, en, L, val)))
    _cmp(acc, "from_intervals-sum", [sum(r) for r in e], lambda: RunLength2dArray.from_intervals(st, en, L, val).sum(axis=-1), close=True)
