"""C18 -- an npdataclass keeps its columns aligned under every operation (Mode I)."""
import itertools
import numpy as np
from mc.norm import attempt, is_refused

PROP = "C18"
RULE = ("cases = (number of fields 1..3, common length, selector / concatenation partner / equality partner / mismatching field), enumerated completely; "
        "oracle = the same selector applied to every field array separately; non-trivial = at least two fields and length >= 2")
ASSUMPTIONS = ["oracle: numpy indexing / concatenation of each field array on its own", "field contents are distinct per field and row so a misaligned entry is visible"]
REQUIRED_FEATURES = ["three_fields", "two_dim_field", "zero_length", "mask_selector", "list_with_repeats", "mismatch_refused", "varlen_widths_differ",
                     "concat_triple", "single_entry", "astype_reordered_fields", "equality_other_field_shape", "inherited_class",
                     "two_dim_first_field", "index_array_selector", "simultaneous_iterations", "mismatch_cancelling", "keyword_construction", "equality_nan_shared_column", "equality_same_size_other_shape", "row_number_out_of_range", "narrow_scalar_row_number"]
BOUNDS = {"quick": "1-3 fields (1-D int, 2-D int, 1-D float) x length 0..4 x {every int, 27 slices, lists of length<=2 incl. empty, every mask} + iteration, "
                   "concatenate pairs and triples with lengths 0..3, equality, astype to a narrower class, fields one entry longer/shorter; VarLenArray "
                   "concatenation widths 1..3 x lengths 0..2 (pairs) and triples; five field layouts with a 2-D first field; index arrays and numpy scalars; column shapes compared; simultaneous iterations; inherited dataclass; row numbers just outside the table (int, np.int64) refused; tables of 130 / 300 rows addressed with int8 / uint8 / int16 / int32 scalars",
          "thorough": "length 0..6, lists of length<=3"}
_CLS = {}


def _classes():
    if not _CLS:
        from npstructures import npdataclass

        @npdataclass
        class K1:
            a: np.ndarray

        @npdataclass
        class K2:
            a: np.ndarray
            b: np.ndarray

        @npdataclass
        class K3:
            a: np.ndarray
            b: np.ndarray
            c: np.ndarray

        @npdataclass
        class Kb:
            b: np.ndarray

        @npdataclass
        class Kca:          # a narrower class whose shared fields are declared in a different order
            c: np.ndarray
            a: np.ndarray
        @npdataclass
        class Kchild(K2):   # inherits a, b and adds c
            c: np.ndarray
        _CLS.update({1: K1, 2: K2, 3: K3, "b": Kb, "ca": Kca, "child": Kchild})
    return _CLS


def fields(k, n, off=0):
    return [np.arange(n) + 10 * off, (np.arange(2 * n) + 100 + 10 * off).reshape(n, 2), (np.arange(n) * 0.5 - off)][:k]


LAYOUTS = {"21": (2, 0), "22": (2, 2), "23": (2, 3), "212": (2, 0, 2), "122": (0, 2, 2)}      # field widths; 0 = a 1-D field


def fields2(lay, n, off=0):
    out = []
    for j, w in enumerate(LAYOUTS[lay]):
        base = 100 * (j + 1) + 10 * off
        out.append(np.arange(n) + base if w == 0 else (np.arange(w * n) + base).reshape(n, w))
    return out


def shards(tier):
    nmax = 4 if tier == "quick" else 6
    return [{"k": k, "n": n} for k in (1, 2, 3) for n in range(nmax + 1)] + [{"vla": 1}]


def cases(shard, tier):
    if "vla" in shard:
        for w1 in (1, 2, 3):
            for w2 in (1, 2, 3):
                for n1 in (0, 1, 2):
                    for n2 in (0, 1, 2):
                        yield ["vla", [[w1, n1], [w2, n2]]]
                        if n1 == 1:
                            for w3 in (1, 3):
                                yield ["vla", [[w1, n1], [w2, n2], [w3, 2]]]
        return
    k, n = shard["k"], shard["n"]
    for i in range(-n, n):
        yield ["get", k, n, ["i", i]]
    for a in (None, 1, -1):
        for b in (None, 2, -1):
            for c in (None, 2, -1):
                yield ["get", k, n, ["s", a, b, c]]
    # row numbers just outside the table (refused by every field array, so by the table), as Python ints and numpy scalars
    for i in (-n - 2, -n - 1, n, n + 1):
        yield ["getx", k, n, "int", i]
        yield ["getx", k, n, "int64", i]
    if n == 1:
        # a table longer than a narrow integer type can count: row numbers handed over as numpy scalars of that type
        for nn in (130, 300):
            for ty, vals in (("int8", (-128, -127, -1, 0, 127)), ("uint8", (0, 127, 128, 255)), ("int16", (-300, -1, 129, 299)), ("int32", (-1, -130, 129)),
                             ("int", (-nn, -nn - 1, nn - 1, nn))):
                for v in vals:
                    yield ["getx", k, nn, ty, v]
    lmax = 2 if tier == "quick" else 3
    for kk in range(lmax + 1):
        for t in itertools.product(range(-n, n), repeat=kk):
            yield ["get", k, n, ["l", list(t)]]
    for m in itertools.product([0, 1], repeat=n):
        yield ["get", k, n, ["m", list(m)]]
        if n:
            yield ["get", k, n, ["lb", list(m)]]
    # the same selectors as index ARRAYS / numpy scalars
    for i in range(-n, n):
        yield ["get", k, n, ["n", i]]
    for kk in range(lmax + 1):
        for t in itertools.product(range(-n, n), repeat=kk):
            yield ["get", k, n, ["a", list(t)]]
    # other field layouts: a 2-D first field, several 2-D fields of equal / different widths
    if k == 1:
        for lay in LAYOUTS:
            for i in range(-n, n):
                yield ["get2", lay, n, ["i", i]]
                yield ["get2", lay, n, ["n", i]]
            for sl in (["s", None, None, None], ["s", None, None, -1], ["s", 1, None, 2], ["s", -1, None, None], ["s", 1, -1, None]):
                yield ["get2", lay, n, sl]
            for kk in range(3):
                for t in itertools.product(range(-n, n), repeat=kk):
                    yield ["get2", lay, n, ["l", list(t)]]
                    yield ["get2", lay, n, ["a", list(t)]]
            for m in itertools.product([0, 1], repeat=n):
                yield ["get2", lay, n, ["m", list(m)]]
                if n:
                    yield ["get2", lay, n, ["lb", list(m)]]
            yield ["iter2", lay, n]
            yield ["cat2", lay, n]
    yield ["iter", k, n]
    for m in range(0, 4):
        yield ["cat", k, n, m]
        yield ["eq", k, n, m]
    yield ["eqself", k, n]
    if k == 3:
        yield ["inherit", k, n]
    if k >= 2:
        yield ["astype", k, n]
        for d in (1, -1):
            if n + d >= 0:
                for which in range(1, k):
                    yield ["mismatch", k, n, d, which]
                yield ["mismatch_kw", k, n, d, k - 1]
        if k == 3 and n >= 1:
            # two fields of the wrong length whose deviations cancel (one longer, one shorter), and both in the same direction
            for dd in ([0, 1, -1], [0, -1, 1], [1, -1, 0], [-1, 0, 1], [0, 1, 1], [1, 1, -2] if n >= 2 else [1, 0, -1]):
                yield ["mismatch2", k, n, dd]


def tl(x):
    """shape and content of a column (an empty selection of a 2-D column is (0, w), not (0,))"""
    x = np.asarray(x)
    return [list(x.shape), x.tolist()]


def tup(o):
    return [tl(x) for x in o.shallow_tuple()]


def _cmp(acc, name, exp, f):
    o = attempt(f)
    acc.trans()
    acc.outcome((name, repr(o)))
    if o != exp:
        acc.fail(name, exp, o)


def _cmp_eq(acc, name, exp, a, b):
    """a() == b() must be exp, and a() != b() its negation (the two operators are separate methods)"""
    _cmp(acc, name, exp, lambda: bool(a() == b()))
    _cmp(acc, name + " (operator !=)", not exp, lambda: bool(a() != b()))


def _check_layout(case, acc):
    from mc import dsl
    C = _classes()
    kind, lay, n = case[0], case[1], case[2]
    f = fields2(lay, n)
    K = C[len(f)]
    names = ["a", "b", "c"][:len(f)]
    mk = lambda: K(*[x.copy() for x in f])
    acc.feature("two_dim_first_field")
    acc.state((lay, n))
    if n >= 2:
        acc.nontrivial()
    if kind == "get2":
        sel = case[3]
        s = dsl.dec(sel)
        s2 = np.array([], dtype=int) if isinstance(s, list) and len(s) == 0 else (np.array(s, dtype=bool) if sel[0] == "lb" else s)
        e = [x[s2].tolist() for x in f]
        if sel[0] in ("i", "n"):
            _cmp(acc, f"layout {lay}: obj[int]", e, lambda: [np.asarray(getattr(mk()[s], nm)).tolist() for nm in names])
        else:
            if sel[0] == "a":
                acc.feature("index_array_selector")
            _cmp(acc, f"layout {lay}: obj[{sel[0]}]", [tl(x[s2]) for x in f], lambda: tup(mk()[s]))
            _cmp(acc, f"layout {lay}: len(obj[sel])", len(e[0]), lambda: len(mk()[s]))
    elif kind == "iter2":
        e = [[x[i].tolist() for x in f] for i in range(n)]
        _cmp(acc, f"layout {lay}: iter", e, lambda: [[np.asarray(getattr(x, nm)).tolist() for nm in names] for x in mk()])
        _cmp(acc, f"layout {lay}: len", n, lambda: len(mk()))
    else:
        f2 = fields2(lay, 2, 1)
        _cmp(acc, f"layout {lay}: concatenate", [tl(np.concatenate([x, y, x])) for x, y in zip(f, f2)],
             lambda: tup(np.concatenate([mk(), K(*[x.copy() for x in f2]), mk()])))
        _cmp(acc, f"layout {lay}: equality-self", True, lambda: bool(mk() == mk()))
        if n:
            g = [x.copy() for x in f]
            g[-1] = g[-1] + 1
            _cmp(acc, f"layout {lay}: equality-last-field-differs", False, lambda: bool(mk() == K(*g)))


def check(case, acc):
    kind = case[0]
    if kind == "vla":
        return _check_vla(case, acc)
    if kind in ("get2", "iter2", "cat2"):
        return _check_layout(case, acc)
    C = _classes()
    k, n = case[1], case[2]
    K = C[k]
    if k == 3:
        acc.feature("three_fields")
    if k >= 2:
        acc.feature("two_dim_field")
    if n == 0:
        acc.feature("zero_length")
    if k >= 2 and n >= 2:
        acc.nontrivial()
    f = fields(k, n)
    mk = lambda: K(*[x.copy() for x in f])
    acc.state((k, n))
    names = ["a", "b", "c"][:k]
    if kind == "get":
        from mc import dsl
        s = [bool(b) for b in case[3][1]] if case[3][0] == "lb" else dsl.dec(case[3])     # "lb": a plain list of bools (numpy: a mask)
        s2 = np.array([], dtype=int) if isinstance(s, list) and len(s) == 0 else (np.array(s, dtype=bool) if case[3][0] == "lb" else s)
        if case[3][0] in ("m", "lb"):
            acc.feature("mask_selector")
        if case[3][0] == "l" and len(set(case[3][1])) < len(case[3][1]):
            acc.feature("list_with_repeats")
        e = [x[s2].tolist() for x in f]
        if case[3][0] == "a":
            acc.feature("index_array_selector")
        if case[3][0] in ("i", "n"):
            acc.feature("single_entry")
            _cmp(acc, "obj[int]", e, lambda: [np.asarray(getattr(mk()[s], nm)).tolist() for nm in names])
        else:
            _cmp(acc, f"obj[{case[3][0]}]", [tl(x[s2]) for x in f], lambda: tup(mk()[s]))
            _cmp(acc, "len(obj[sel])", len(e[0]), lambda: len(mk()[s]))
        _cmp(acc, "len", n, lambda: len(mk()))
    elif kind == "getx":
        ty, v = case[3], case[4]
        sel = int(v) if ty == "int" else getattr(np, ty)(v)
        acc.feature("row_number_out_of_range" if not -n <= v < n else "narrow_scalar_row_number")
        e = attempt(lambda: [x[sel].tolist() for x in f])
        o = attempt(lambda: [np.asarray(getattr(mk()[sel], nm)).tolist() for nm in names])
        acc.trans()
        acc.outcome(("getx", repr(o)))
        if is_refused(e):
            if not is_refused(o):
                acc.fail("row number outside the table accepted", "refused (every field array refuses it)", o)
        elif o != e:
            acc.fail(f"obj[np.{ty}]", e, o)
    elif kind == "iter":
        e = [[x[i].tolist() for x in f] for i in range(n)]
        ent = lambda x: [np.asarray(getattr(x, nm)).tolist() for nm in names]
        _cmp(acc, "iter", e, lambda: [ent(x) for x in mk()])
        # two iterations over the same table alive at once (zip with itself, a nested loop, a second pass)
        acc.feature("simultaneous_iterations")

        def zipped():
            t = mk()
            return [[ent(a), ent(b)] for a, b in zip(t, t)]
        _cmp(acc, "zip(t, t)", [[r, r] for r in e], zipped)

        def nested():
            t = mk()
            return [[ent(a), ent(b)] for a in t for b in t]
        _cmp(acc, "nested iteration", [[a, b] for a in e for b in e], nested)

        def twice():
            t = mk()
            i1 = iter(t)
            first = [ent(next(i1))] if n else []
            second = [ent(x) for x in t]
            return first + [ent(x) for x in i1], second
        _cmp(acc, "second pass while the first is open", (e, e), twice)
    elif kind in ("cat", "eq"):
        m = case[3]
        f2 = fields(k, m, 1)
        mk2 = lambda: K(*[x.copy() for x in f2])
        if kind == "cat":
            _cmp(acc, "concatenate-pair", [tl(np.concatenate([x, y])) for x, y in zip(f, f2)], lambda: tup(np.concatenate([mk(), mk2()])))
            acc.feature("concat_triple")
            _cmp(acc, "concatenate-triple", [tl(np.concatenate([x, y, x])) for x, y in zip(f, f2)], lambda: tup(np.concatenate([mk(), mk2(), mk()])))
            _cmp(acc, "len(concatenate)", n + m, lambda: len(np.concatenate([mk(), mk2()])))
        else:
            e = (n == m) and all(np.array_equal(x, y) for x, y in zip(f, f2))
            _cmp_eq(acc, "equality", e, mk, mk2)
            if n == m and n > 0 and k >= 2:
                # equal first field, different last field: columns must all take part
                g = [x.copy() for x in f]
                g[-1] = g[-1] + 1
                _cmp(acc, "equality-last-field-differs", False, lambda: bool(mk() == K(*g)))
                # same length, a 2-D field of another (broadcast-compatible) width: different tables
                acc.feature("equality_other_field_shape")
                col = np.arange(n).reshape(n, 1) + 7
                g1 = [x.copy() for x in f]
                g2 = [x.copy() for x in f]
                g1[1], g2[1] = col, np.repeat(col, 3, axis=1)
                _cmp_eq(acc, "equality-field-widths-differ", False, lambda: K(*g1), lambda: K(*g2))
                _cmp_eq(acc, "equality-field-widths-differ(rev)", False, lambda: K(*g2), lambda: K(*g1))
    elif kind == "inherit":
        # the base class is used first, then the subclass with one more field: all three columns must take part
        acc.feature("inherited_class")
        base = C[2](*[x.copy() for x in f[:2]])
        Kc = C["child"]
        _cmp(acc, "base-len", n, lambda: len(base))
        mkc = lambda: Kc(*[x.copy() for x in f])
        _cmp(acc, "child-fields", [x.tolist() for x in f], lambda: [np.asarray(getattr(mkc(), nm)).tolist() for nm in ("a", "b", "c")])
        _cmp(acc, "child[::-1]", [x[::-1].tolist() for x in f], lambda: [np.asarray(getattr(mkc()[::-1], nm)).tolist() for nm in ("a", "b", "c")])
        _cmp(acc, "child-concatenate", [np.concatenate([x, x]).tolist() for x in f],
             lambda: [np.asarray(getattr(np.concatenate([mkc(), mkc()]), nm)).tolist() for nm in ("a", "b", "c")])
        if n:
            g = [x.copy() for x in f]
            g[2] = g[2] + 1
            _cmp(acc, "child-equality-extra-field-differs", False, lambda: bool(mkc() == Kc(*g)))
            g2 = [x.copy() for x in f]
            g2[2] = fields(3, n + 1)[2]
            o = attempt(lambda: [np.asarray(v).tolist() for v in Kc(*g2).shallow_tuple()])
            acc.trans()
            if not is_refused(o):
                acc.fail("fields-of-different-length-accepted", "refused", o)
    elif kind == "eqself":
        _cmp_eq(acc, "equality-self", True, mk, mk)
        if n >= 2:
            # equally many ELEMENTS in columns of different shape: one entry of width n against n entries; an (n, 1) against an (n,) column
            acc.feature("equality_same_size_other_shape")
            v = np.arange(n) + 3
            K1 = C[1]
            _cmp_eq(acc, "equality-one-wide-entry-vs-n-entries", False, lambda: K1(v.reshape(1, n).copy()), lambda: K1(v.copy()))
            _cmp(acc, "equality-n-entries-vs-one-wide-entry", False, lambda: bool(K1(v.copy()) == K1(v.reshape(1, n).copy())))
            c7 = np.full(n, 7)
            _cmp_eq(acc, "equality-(n,1)-vs-(n,)", False, lambda: K1(c7.reshape(n, 1).copy()), lambda: K1(c7.copy()))
        if k == 3 and n:
            # a NaN entry is unequal to itself: a table holding one is not equal to a table built from the very same column objects, nor to itself
            acc.feature("equality_nan_shared_column")
            g = [x.copy() for x in f]
            g[2] = g[2].copy()
            g[2][0] = np.nan
            want = bool(np.array_equal(g[2], g[2]))        # False: numpy's entry-wise comparison
            _cmp(acc, "equality-shared-nan-column", want, lambda: bool(K(*g) == K(*g)))
            _cmp(acc, "equality-self-nan", want, lambda: (lambda t: bool(t == t))(K(*g)))
    elif kind == "astype":
        _cmp(acc, "astype-narrower", [tl(f[1])], lambda: tup(mk().astype(C["b"])))
        if k == 3:
            acc.feature("astype_reordered_fields")
            _cmp(acc, "astype-narrower-reordered", {"c": f[2].tolist(), "a": f[0].tolist()},
                 lambda: (lambda o: {"c": np.asarray(o.c).tolist(), "a": np.asarray(o.a).tolist()})(mk().astype(C["ca"])))
    elif kind == "mismatch_kw":
        # the wrong-length field handed over by keyword (all fields by keyword / only the last one)
        d, which = case[3], case[4]
        g = [x.copy() for x in f]
        g[which] = fields(k, n + d)[which]
        acc.feature("mismatch_refused")
        acc.feature("keyword_construction")
        for name, mkk in (("all keywords", lambda: K(**dict(zip(names, g)))), ("last by keyword", lambda: K(*g[:-1], **{names[-1]: g[-1]}))):
            o = attempt(lambda: tup(mkk()))
            acc.trans()
            if not is_refused(o):
                acc.fail("fields-of-different-length-accepted", ("refused", name), o)
        ok = attempt(lambda: tup(K(**dict(zip(names, f)))))
        acc.trans()
        if ok != [tl(x) for x in f]:
            acc.fail("keyword-construction-wrong", [tl(x) for x in f], ok)
    elif kind == "mismatch2":
        dd = case[3]
        g = [fields(k, n + dd[j])[j] for j in range(k)]
        acc.feature("mismatch_refused")
        acc.feature("mismatch_cancelling")
        acc.nontrivial()
        o = attempt(lambda: tup(K(*g)))
        acc.trans()
        if not is_refused(o):
            acc.fail("fields-of-different-length-accepted", ("refused", [n + x for x in dd]), o)
    elif kind == "mismatch":
        d, which = case[3], case[4]
        g = [x.copy() for x in f]
        g[which] = fields(k, n + d)[which]
        acc.feature("mismatch_refused")
        acc.nontrivial()
        o = attempt(lambda: tup(K(*g)))
        acc.trans()
        if not is_refused(o):
            acc.fail("fields-of-different-length-accepted", "refused", o)


def _check_vla(case, acc):
    from npstructures import VarLenArray
    specs = case[1]
    arrs, off = [], 1
    for w, n in specs:
        arrs.append((np.arange(n * w) + off).reshape(n, w))
        off += 50
    W = max(w for w, n in specs)
    if len({w for w, n in specs}) > 1:
        acc.feature("varlen_widths_differ")
        acc.nontrivial()
    acc.state(("vla", tuple(map(tuple, specs))))
    e = [[0] * (W - a.shape[1]) + row for a in arrs for row in a.tolist()]
    _cmp(acc, "VarLenArray-concatenate", e, lambda: np.concatenate([VarLenArray(a.copy()) for a in arrs]).array.tolist())
