"""C19 -- results do not depend on the index-width configuration (Mode III: configuration differential).

The case streams of the C01-C09 checks are executed twice on the real code -- with the default 64-bit row
index and after ViewBase.set_dtype(np.int32) -- and compared case by case: every normalised observation
(values, row lengths, element dtypes of data-valued results, raised-or-not) and every oracle verdict must
be identical.  No expected values are involved beyond those of C01-C09 themselves."""
import numpy as np
from mc import explore
from mc import norm as norm_mod

PROP = "C19"
TECHNIQUE = "exhaustive two-configuration differential over the enumerated C01-C09 case streams on the real code"
RULE = ("cases = the enumerated cases of the C01-C09 checks (reduced domains in the quick tier, see bounds), each executed under both index widths on fresh "
        "objects; a case is non-trivial when it produced at least one observation that is not a refusal; states = distinct (case, observation) pairs")
ASSUMPTIONS = ["the C01-C09 case generators and normalisers (values, row lengths, dtypes of data-valued results; index-valued results by value)",
               "arrays are small enough for 32-bit offsets (all enumerated arrays have < 200 cells)",
               "the configuration is switched through the public ViewBase.set_dtype before any object of the case exists and restored afterwards"]
REQUIRED_FEATURES = ["stream_C01", "stream_C02", "stream_C03", "stream_C04", "stream_C05", "stream_C07", "stream_C08", "stream_C09", "refusals_compared", "named_cases"]
BOUNDS = {"quick": "C01: LV(3,3)+numpy round trip; C02: LV(2,2), three-row arrays with rows <= 1 and two more, full quick grammar; C03: LV(2,2) + 3 three-row arrays; C04: dtype1 in {int64,float32}, LV(2,2) + 4 three-row shapes; "
                   "C05, C07, C09: LV(3,3); C08: its complete quick domain; element dtypes of every ragged result compared; 64 / 32 / 64-again; six named large cases (50 000 rows, bounds 2**31-1 and 2**40)",
          "thorough": "the complete quick-tier streams of C01-C09"}
STREAMS = ["C01", "C02", "C03", "C04", "C05", "C07", "C08", "C09"]


def _reduced(prop, sh):
    """quick tier: smaller domains for the heavy streams (still enumerated completely)"""
    if prop in ("C01", "C05", "C07", "C09"):
        return "lens" not in sh or (len(sh["lens"]) <= 3)
    if prop == "C02":
        return max(sh["lens"], default=0) <= 2 and (len(sh["lens"]) <= 2 or max(sh["lens"], default=0) <= 1 or sh["lens"] in ([2, 0, 1], [0, 1, 2]))
    if prop == "C03":
        return (len(sh["lens"]) <= 2) or sh["lens"] in ([1, 0, 2], [0, 2, 1], [2, 1, 0])
    if prop == "C04":
        return sh["dt1"] in ("int64", "float32") and (len(sh["lens"]) <= 2 or sh["lens"] in ([2, 0, 1], [0, 1, 2], [1, 1, 0], [0, 0, 0]))
    return True


NAMED = ["sort_many_rows", "unique_many_rows", "rslice_huge_ends", "rslice_sentinel_end", "reduce_many_rows", "index_many_rows", "colslice_huge_components"]


def _named(name):
    """named cases outside the small scope: row counts / bounds at which 32-bit intermediates could wrap (arrays still tiny in bytes)"""
    from npstructures import RaggedArray, ragged_slice
    n = 50000
    lens = np.zeros(n, dtype=int)
    lens[[10, 20000, 36000, 49999]] = [3, 2, 3, 1]
    data = np.array([3, 1, 2, 60000, 5, 8, 100, 7, 9], dtype=np.int32)
    big = lambda: RaggedArray(data.copy(), lens.copy())
    small = lambda: RaggedArray(np.arange(1, 11), [1, 3, 2, 0, 3, 1])
    if name == "sort_many_rows":
        return [r.tolist() for r in big().sort(axis=-1)[[10, 20000, 36000, 49999]]]
    if name == "unique_many_rows":
        return [r.tolist() for r in np.unique(big(), axis=-1)[[10, 20000, 36000, 49999]]]
    if name == "reduce_many_rows":
        return [big().sum(axis=-1)[[10, 20000, 36000, 49999]].tolist(), big().max(axis=-1)[[10, 36000]].tolist() if False else None,
                np.asarray(big().lengths)[[10, 49999]].tolist()]
    if name == "index_many_rows":
        b = big()
        return [b[49999].tolist(), b[[36000, 10]].tolist(), b[35999:36001, ::-1].tolist(), b[np.int64(20000), 1].item()]
    if name == "colslice_huge_components":
        # column-slice starts / stops / steps at and beyond the 32-bit range (they act like the row bounds): 9 steps x 5 starts x 4 stops,
        # on a fresh array and on a pending selection, and compared with plain list slicing as well
        rows = [[1, 2, 3], [4, 5], [], [6, 7, 8, 9]]
        out = []
        for st in (2 ** 31 - 1, 2 ** 31, 2 ** 40, -2 ** 31, -2 ** 31 - 1, -2 ** 40, 2 ** 31 - 2, 3, -2):
            for a in (None, 1, -2 ** 40, 2 ** 40, -1):
                for b in (None, 2 ** 40, -2 ** 40, 2):
                    s = slice(a, b, st)
                    got = RaggedArray(rows)[:, s].tolist()
                    assert got == [r[s] for r in rows], (s, got)
                    out.append((got, RaggedArray(rows)[1:, s][::-1][:, ::-1].tolist()))
        return out
    if name == "rslice_huge_ends":
        return ragged_slice(small(), np.array([0, 1, 0, 0, 1, 0]), np.full(6, 2 ** 40)).tolist()
    if name == "rslice_sentinel_end":
        return ragged_slice(small(), np.array([0, 1, 0, 0, 1, 0]), np.full(6, 2 ** 31 - 1)).tolist()
    raise ValueError(name)


def shards(tier):
    out = [{"named": 1}]
    for p in STREAMS:
        mod = explore.load_check(p)
        for sh in mod.shards("quick"):
            if tier == "quick" and not _reduced(p, sh):
                continue
            out.append({"prop": p, "shard": sh})
    return out


def _set_width(bits):
    from npstructures.raggedshape import ViewBase
    ViewBase.set_dtype(np.int32 if bits == 32 else np.int64)


def _run_stream(mod, cases, bits):
    _set_width(bits)
    try:
        acc = explore.Acc(mod.PROP, 0, record_obs=True)
        verdicts = []
        for case in cases:
            acc.begin(case)
            before = acc.fail_total
            norm_mod.TAP = tap = []
            try:
                mod.check(case, acc)
            except explore.Hang:
                acc.fail("hang", "terminates", "timeout")
            except Exception as e:  # noqa: BLE001  an un-guarded library call inside the check raised: that is an observation too
                acc.outcome(("X-unguarded", type(e).__name__))
            sigs = tuple(sorted(f["kind"] for f in acc.failures[-(acc.fail_total - before):])) if acc.fail_total > before else ()
            verdicts.append((acc.fail_total - before, sigs, tuple(tap)))
        return acc.obs_stream, verdicts
    finally:
        norm_mod.TAP = None
        _set_width(64)


def _widthless(o):
    """index-valued integers may legitimately be 32 or 64 bit wide: compare them by value"""
    if isinstance(o, tuple):
        return tuple(_widthless(x) for x in o)
    if isinstance(o, list):
        return [_widthless(x) for x in o]
    return o


def _run_named(name, bits):
    from mc.norm import attempt
    _set_width(bits)
    try:
        return attempt(lambda: repr(_named(name)))
    finally:
        _set_width(64)


def run_shard(shard, tier, acc):
    if "named" in shard:
        for name in NAMED:
            acc.begin(["named", name])
            acc.feature("named_cases")
            check(["named", name], acc)
        return
    mod = explore.load_check(shard["prop"])
    cases = list(mod.cases(shard["shard"], "quick")) if hasattr(mod, "cases") else []
    acc.feature("stream_" + shard["prop"])
    o64, v64 = _run_stream(mod, cases, 64)
    o32, v32 = _run_stream(mod, cases, 32)
    # back to the default: the first cases once more -- selecting the 32-bit configuration must leave nothing behind
    k = min(len(cases), 150)
    o64b, v64b = _run_stream(mod, cases[:k], 64)
    for i, case in enumerate(cases):
        acc.begin([shard["prop"], case])
        _compare(acc, o64[i], v64[i], o32[i], v32[i])
        if i < k and (o64b[i] != o64[i] or v64b[i] != v64[i]):
            acc.fail("default-configuration-differs-after-a-32-bit-episode", {"before": o64[i]}, {"after": o64b[i]})


def _compare(acc, o64, v64, o32, v32):
    acc.trans(2)
    for o in o64:
        acc.state(o)
        acc.outcome(o)
    if any("'X'" in repr(o) for o in o64):
        acc.feature("refusals_compared")
    if any("'X'" not in repr(o)[:8] for o in o64):
        acc.nontrivial()
    if o64 != o32:
        diff = next(((a, b) for a, b in zip(o64, o32) if a != b), (len(o64), len(o32)))
        acc.fail("result-depends-on-index-width", {"int64": diff[0]}, {"int32": diff[1]}, classifier=_classify(diff))
    elif v64[:2] != v32[:2]:
        acc.fail("oracle-verdict-depends-on-index-width", {"int64": v64[:2]}, {"int32": v32[:2]})
    elif v64[2] != v32[2]:
        d = next(((a, b) for a, b in zip(v64[2], v32[2]) if a != b), (len(v64[2]), len(v32[2])))
        acc.fail("result-dtype-depends-on-index-width", {"int64": d[0]}, {"int32": d[1]})


def check(case, acc):
    prop, sub = case
    if prop == "named":
        o64, o32 = _run_named(sub, 64), _run_named(sub, 32)
        o64b = _run_named(sub, 64)
        if o64b != o64:
            acc.fail("default-configuration-differs-after-a-32-bit-episode", {"before": o64}, {"after": o64b})
        acc.trans(2)
        acc.state(o64)
        acc.outcome(o64)
        acc.nontrivial()
        if o64 != o32:
            acc.fail("result-depends-on-index-width", {"int64": o64}, {"int32": o32})
        return
    mod = explore.load_check(prop)
    o64, v64 = _run_stream(mod, [sub], 64)
    o32, v32 = _run_stream(mod, [sub], 32)
    o64b, v64b = _run_stream(mod, [sub], 64)
    _compare(acc, o64[0], v64[0], o32[0], v32[0])
    if o64b[0] != o64[0] or v64b[0] != v64[0]:
        acc.fail("default-configuration-differs-after-a-32-bit-episode", {"before": o64[0]}, {"after": o64b[0]})


def _classify(diff):
    return None
