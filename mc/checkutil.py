"""small helpers shared by the check modules"""
import os
import atexit
import shutil
import tempfile
import numpy as np
from mc.norm import observe, is_refused

_TMP = None


def tmpdir():
    global _TMP
    if _TMP is None:
        base = os.environ.get("VERIF_RUN_TMP")
        if base and os.path.isdir(base):
            _TMP = base                      # the explorer removes it when the run ends
        else:
            _TMP = tempfile.mkdtemp(prefix="nps_verif_")
            atexit.register(shutil.rmtree, _TMP, ignore_errors=True)
    return _TMP


def cmp(acc, name, exp, obs, classifier=None, note=None):
    """one reader/operation transition: record it and compare with the model's answer"""
    acc.trans()
    acc.outcome((name, obs))
    if exp != obs:
        acc.fail(name, exp, obs, classifier=classifier, note=note)
        return False
    return True


def must_refuse(acc, name, obs, classifier=None):
    acc.trans()
    acc.outcome((name, obs))
    if not is_refused(obs):
        acc.fail(name, "refused", obs, classifier=classifier)
        return False
    return True


def _shape_of(v):
    if isinstance(v, (list, tuple)):
        return (len(v),) + (_shape_of(v[0]) if len(v) and isinstance(v[0], (list, tuple)) else ())
    return ()


def A(values, dtype=None, shape=None):
    """expected observation of an ndarray result; values: ndarray or nested list of Python values
    (lists are NOT passed through numpy, so large uint64 / mixed values keep their exact value)"""
    from mc.norm import arr, _tup
    if isinstance(values, np.ndarray):
        o = arr(values, dt=False)
        return (o[0], dtype, tuple(shape) if shape is not None else o[2], o[3])
    return ("A", dtype, tuple(shape) if shape is not None else _shape_of(values), _tup(list(values)))


def R(rows, dtype=None):
    """expected observation of a ragged result; rows: list of lists / arrays"""
    from mc.norm import _tup
    return ("R", dtype, tuple(_tup(np.asarray(r).tolist()) if not isinstance(r, list) else _tup(r) for r in rows))


def S(v, dtype=None):
    from mc.norm import pyval
    return ("S", dtype, pyval(v))


def ragged(rows_np, lens, dtype):
    """fresh real RaggedArray from per-row numpy arrays (flat buffer + lengths constructor)"""
    from npstructures import RaggedArray
    flat = np.concatenate(rows_np).astype(dtype) if len(rows_np) else np.zeros(0, dtype=dtype)
    return RaggedArray(flat, list(lens))
