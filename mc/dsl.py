"""JSON-serialisable encoding of selectors / values, their decoding into real Python objects, and
their rendering as Python source (for human-readable replays)."""
import itertools
import numpy as np

E = "E"          # Ellipsis
T0 = "T0"        # ()


def dec(s):
    if s == "E":
        return Ellipsis
    if s == "T0":
        return ()
    if s is None:
        return None
    k = s[0]
    if k == "i":
        return int(s[1])
    if k == "n":
        return np.int64(s[1])
    if k == "z":
        return np.array(s[1])
    if k == "s":
        return slice(s[1], s[2], s[3])
    if k == "l":
        return list(s[1])
    if k == "a":
        return np.array(s[1], dtype=np.int64)
    if k == "m":
        return np.array(s[1], dtype=bool)
    if k == "lb":                       # a boolean mask spelled as a plain Python list
        return [bool(b) for b in s[1]]
    if k == "t":
        return tuple(dec(x) for x in s[1:])
    raise ValueError(f"bad selector {s!r}")


def src(s):
    if s == "E":
        return "..."
    if s == "T0":
        return "()"
    k = s[0]
    if k == "i":
        return repr(int(s[1]))
    if k == "n":
        return f"np.int64({s[1]})"
    if k == "z":
        return f"np.array({s[1]})"
    if k == "s":
        return f"slice({s[1]},{s[2]},{s[3]})"
    if k == "l":
        return repr(list(s[1]))
    if k == "a":
        return f"np.array({list(s[1])}, dtype=np.int64)"
    if k == "m":
        return f"np.array({[bool(x) for x in s[1]]}, dtype=bool)"
    if k == "lb":
        return repr([bool(x) for x in s[1]])
    if k == "t":
        return "(" + ", ".join(src(x) for x in s[1:]) + ",)"
    return repr(s)


def lens_vectors(max_rows, max_len, min_rows=0):
    """LV(R, L): every vector of n <= R row lengths in 0..L, simplest first."""
    for n in range(min_rows, max_rows + 1):
        for v in itertools.product(range(max_len + 1), repeat=n):
            yield list(v)


def distinct_rows(lens, dtype=None):
    """cells hold 1..size, so a wrong cell is always visibly wrong"""
    c = itertools.count(1)
    return [[next(c) for _ in range(l)] for l in lens]


def slices(lim, steps=(None, 1, 2, 3, -1, -2, -3)):
    vals = [None] + list(range(-lim, lim + 1))
    for a in vals:
        for b in vals:
            for st in steps:
                yield ["s", a, b, st]


def row_selectors(n, steps=(None, 1, 2, 3, -1, -2, -3), list_len=2, int_kinds=("i", "n", "z")):
    yield "E"
    yield "T0"
    for i in range(-(n + 1), n + 1):
        for k in int_kinds:
            yield [k, i]
    yield from slices(n + 1, steps)
    yield ["l", []]
    for k in range(1, list_len + 1):
        for t in itertools.product(range(-n, n), repeat=k):
            yield ["l", list(t)]
            yield ["a", list(t)]
    if n > 0:
        yield ["l", [n]]          # one out-of-range list
        yield ["a", [0, -(n + 1)]]
    for t in itertools.product([0, 1], repeat=n):
        yield ["m", list(t)]
        if n > 0:
            yield ["lb", list(t)]     # the same mask as a plain list of bools (numpy: still a mask)
    yield ["m", [1] * (n + 1)]    # mask of the wrong length
    if n > 1:
        yield ["m", [1] * (n - 1)]   # (an EMPTY boolean selector is treated like an empty list: selects nothing)


def col_selectors(m, steps=(None, 1, 2, 3, -1, -2, -3)):
    yield "E"
    for j in range(-(m + 1), m + 1):
        yield ["i", j]
    yield from slices(m + 1, steps)


DTYPES = ["bool", "int8", "int16", "int32", "int64", "uint8", "uint64", "float32", "float64"]

_PAT = {
    "bool": [[True, False, False, True, True, False, True, False],
             [False, False, True, True, False, True, False, True]],
    "f": [[1.5, -2.25, 0.0, 3.0, -0.5, 7.75, 2.0, -1.0],
          [0.25, 0.25, -4.0, 8.5, 8.5, -0.75, 16.0, 0.0]],
}


def pattern(dtype, n, k=0):
    """deterministic value pattern k for n cells of dtype (extremes, negatives, duplicates, zeros)"""
    dt = np.dtype(dtype)
    if dt == np.bool_:
        base = _PAT["bool"][k % 2]
    elif dt.kind == "f":
        base = _PAT["f"][k % 2]
    else:
        info = np.iinfo(dt)
        lo, hi = int(info.min), int(info.max)
        if dt.kind == "u":
            cands = [[1, hi, 0, 3, hi - 1, 7, 2, hi // 2 + 1],
                     [2, 2, 5, 0, hi, hi, 1, 3],
                     [hi, hi, 1, 1, 0, 2, 2, hi]]
        else:
            cands = [[1, -2, 0, 3, lo, hi, 2, -1],
                     [2, 2, -5, 0, hi, hi, -1, -1],
                     [lo, lo, 1, 1, 0, -3, -3, hi]]
        base = cands[k % 3]
    if k >= 3 or (dt.kind in "bf" and k >= 2):
        r = (k // 2) % 8
        base = base[r:] + base[:r]
    out = (base * (n // len(base) + 1))[:n]
    return np.array(out, dtype=dt)


def split_rows(flat, lens):
    out, p = [], 0
    for l in lens:
        out.append(flat[p:p + l])
        p += l
    return out
