"""The explorer: exhaustive enumeration of a finite, explicitly stated domain of cases on the REAL
npstructures code, sharded over worker processes, with counters, evidence, known-finding
classification and replay artefacts.

A check module (mc/checks/cNN.py) provides

    PROP, RULE, ASSUMPTIONS, REQUIRED_FEATURES, BOUNDS[tier]
    shards(tier)            -> list of JSON-able shard descriptors (simplest first)
    cases(shard, tier)      -> iterator of JSON-able cases                (Mode I)
    check(case, acc)        -> runs ONE case on fresh real objects and reports through `acc`
    run_shard(shard, tier, acc)   (optional, Mode II: BFS over histories; calls acc.begin(case) itself)

Everything that decides is in the check modules; this file only schedules, counts and reports.
"""
import os
import sys
import json
import time
import signal
import hashlib
import importlib
import traceback
import subprocess
import collections

VERIF = os.path.dirname(os.path.dirname(os.path.abspath(__file__)))
# per-case budget in CPU seconds of the worker process (ITIMER_PROF): wall-clock time would turn machine load into "hangs"
CASE_TIMEOUT_S = float(os.environ.get("VERIF_CASE_TIMEOUT", "20"))
_TIMER = signal.ITIMER_PROF
_TIMER_SIG = signal.SIGPROF
MAX_FAILS_PER_SIG = 5          # stored per shard and signature (all are counted)
MAX_REPORTED = 20              # distinct violations written per run


class Hang(BaseException):
    """Raised by the interval timer inside a case; BaseException so `except Exception` in the
    library (e.g. RaggedArray.__repr__) cannot swallow it."""


def _on_alarm(signum, frame):
    raise Hang()


def replay_root():
    return os.environ.get("VERIF_REPLAY_DIR") or os.path.join(VERIF, "replays")


def nps_root():
    return os.path.realpath(os.environ.get("NPS_ROOT", "/repo"))


def bind_repo():
    """Make `import npstructures` resolve to the working tree under NPS_ROOT, and prove it."""
    root = nps_root()
    if sys.path[0] != root:
        sys.path.insert(0, root)
    os.environ.setdefault("NPSTRUCTURES_VERIF", "1")
    import warnings
    warnings.filterwarnings("ignore")
    import numpy as np
    np.seterr(all="ignore")
    import npstructures
    f = os.path.realpath(npstructures.__file__)
    if not f.startswith(root + os.sep):
        raise SystemExit(f"HARNESS-ERROR: npstructures imported from {f}, expected under {root}")
    return root


def jdump(x):
    return json.dumps(x, sort_keys=True, separators=(",", ":"), default=_jdefault)


def _jdefault(o):
    import numpy as np
    if isinstance(o, (np.integer,)):
        return int(o)
    if isinstance(o, (np.floating,)):
        return float(o)
    if isinstance(o, (np.bool_,)):
        return bool(o)
    if isinstance(o, np.ndarray):
        return o.tolist()
    if isinstance(o, (set, frozenset)):
        return sorted(o)
    if isinstance(o, tuple):
        return list(o)
    return repr(o)


def digest(x):
    return hashlib.blake2b(jdump(x).encode(), digest_size=8).hexdigest()


def fast_key(x):
    """cheap hashable key for already-plain nested tuples/lists"""
    return hash(repr(x))


class Acc:
    """Per-shard accumulator handed to the check code."""

    def __init__(self, prop, seed, record_obs=False):
        self.prop = prop
        self.seed = seed
        self.evals = 0
        self.transitions = 0
        self.traces = 0
        self.nontriv = 0
        self.undefined_n = 0
        self.states = set()
        self.outcomes = set()
        self.features = collections.Counter()
        self.kinds = collections.Counter()
        self.fail_total = 0
        self.fail_by_sig = collections.Counter()
        self.failures = []
        self.samples = []
        self.case = None
        self.idx = -1
        self.extra = collections.Counter()
        self.record_obs = record_obs
        self.obs_stream = []
        self._case_failed = False

    # -- called by the explorer loop (or by a Mode-II run_shard) for every case
    def begin(self, case):
        self.case = case
        self.idx += 1
        self.evals += 1
        self.traces += 1
        self._case_failed = False
        if self.record_obs:
            self.obs_stream.append([])
        if len(self.samples) < 2 and ((self.idx * 2654435761 + self.seed * 40503) % 997 == 0):
            self.samples.append(case)
        signal.setitimer(_TIMER, CASE_TIMEOUT_S)

    # -- called by check code
    def state(self, key):
        self.states.add(key if isinstance(key, (int, str)) else fast_key(key))

    def trans(self, n=1):
        self.transitions += n

    def nontrivial(self, n=1):
        self.nontriv += n

    def undefined(self, n=1):
        self.undefined_n += n

    def feature(self, name, n=1):
        self.features[name] += n

    def outcome(self, obs):
        """record one normalised implementation observation (distinct-outcome count; C19 stream)"""
        self.outcomes.add(fast_key(obs))
        if self.record_obs:
            self.obs_stream[-1].append(obs)

    def fail(self, kind, expected, observed, classifier=None, note=None):
        self.fail_total += 1
        self._case_failed = True
        sig = f"{kind}|{classifier}"
        self.fail_by_sig[sig] += 1
        if self.fail_by_sig[sig] <= MAX_FAILS_PER_SIG:
            self.failures.append({"case": self.case, "kind": kind, "expected": expected,
                                  "observed": observed, "classifier": classifier, "note": note,
                                  "shard": getattr(self, "shard", None), "index": self.idx})

    def result(self):
        return {"evals": self.evals, "transitions": self.transitions, "traces": self.traces,
                "nontriv": self.nontriv, "undefined": self.undefined_n, "states": len(self.states),
                "state_set": list(self.states),
                "outcomes": self.outcomes, "features": dict(self.features),
                "fail_total": self.fail_total, "fail_by_sig": dict(self.fail_by_sig),
                "failures": self.failures, "samples": self.samples, "extra": dict(self.extra),
                "obs_stream": self.obs_stream if self.record_obs else None}


def load_check(prop):
    return importlib.import_module(f"mc.checks.{prop.lower()}")


def _raised_in_library(exc):
    """True when the innermost frame of the traceback is NOT harness code: the library (or numpy underneath it) raised
    inside an operation the check did not expect to fail"""
    tb = exc.__traceback__
    last = None
    while tb is not None:
        last = tb.tb_frame.f_code.co_filename
        tb = tb.tb_next
    return last is not None and not os.path.realpath(last).startswith(VERIF + os.sep)


def guarded_check(mod, case, acc):
    try:
        mod.check(case, acc)
    except Hang:
        acc.fail("hang", "case terminates", f"no result within {CASE_TIMEOUT_S}s")
    except Exception as e:  # noqa: BLE001
        if not _raised_in_library(e):
            raise
        acc.fail("library-raised-in-an-operation-that-never-fails-on-a-correct-tree", "no exception",
                 ("X", type(e).__name__, str(e)[:200]))


def run_one_shard(mod, shard, tier, seed, record_obs=False):
    acc = Acc(mod.PROP, seed, record_obs=record_obs)
    acc.shard = shard
    signal.signal(_TIMER_SIG, _on_alarm)
    try:
        if hasattr(mod, "run_shard"):
            try:
                mod.run_shard(shard, tier, acc)
            except Hang:
                acc.fail("hang", "case terminates", f"no result within {CASE_TIMEOUT_S}s")
            except Exception as e:  # noqa: BLE001
                if not _raised_in_library(e) or acc.case is None:
                    raise
                acc.fail("library-raised-in-an-operation-that-never-fails-on-a-correct-tree", "no exception",
                         ("X", type(e).__name__, str(e)[:200]))
        else:
            for case in mod.cases(shard, tier):
                acc.begin(case)
                guarded_check(mod, case, acc)
    finally:
        signal.setitimer(_TIMER, 0)
    return acc.result()


def _worker_init(root, mem_gib, run_tmp=None):
    os.environ["NPS_ROOT"] = root
    if run_tmp:
        os.environ["VERIF_RUN_TMP"] = run_tmp
    for k in ("OMP_NUM_THREADS", "MKL_NUM_THREADS", "OPENBLAS_NUM_THREADS"):
        os.environ[k] = "1"
    if VERIF not in sys.path:
        sys.path.insert(0, VERIF)
    try:
        import resource
        lim = int(mem_gib * (1 << 30))
        resource.setrlimit(resource.RLIMIT_AS, (lim, lim))
    except Exception:
        pass
    bind_repo()


def _worker(args):
    prop, shard, tier, seed = args
    try:
        mod = load_check(prop)
        r = run_one_shard(mod, shard, tier, seed)
        if not getattr(mod, "MERGE_STATES", False):
            r.pop("state_set", None)
        r["outcomes"] = list(r["outcomes"]) if len(r["outcomes"]) < 200000 else list(r["outcomes"])[:200000]
        return ("ok", r)
    except BaseException:
        return ("err", f"shard {shard!r}: " + traceback.format_exc())


def load_known():
    p = os.path.join(VERIF, "known_findings.json")
    if not os.path.exists(p):
        return []
    with open(p) as f:
        return json.load(f)["findings"]


def run_check(prop, tier, jobs=None, seed=None, out=sys.stdout):
    import multiprocessing as mp
    t0 = time.time()
    seed = int(os.environ.get("VERIF_SEED", "0") or 0) if seed is None else seed
    jobs = jobs or int(os.environ.get("VERIF_JOBS", "0") or 0) or min(16, os.cpu_count() or 1)
    root = bind_repo()
    mod = load_check(prop)
    shards = list(mod.shards(tier))
    rdir0 = os.path.join(replay_root(), prop)
    if os.path.isdir(rdir0):
        for fn in os.listdir(rdir0):          # replay artefacts belong to one run
            os.unlink(os.path.join(rdir0, fn))
    if not shards:
        print(f"HARNESS-ERROR: {prop} has no shards for tier {tier}", file=out)
        return 2
    order = list(range(len(shards)))
    # the seed only rotates the shard -> worker assignment; the explored set is the same
    rot = seed % len(shards)
    order = order[rot:] + order[:rot]
    ctx = mp.get_context("spawn")
    results = [None] * len(shards)
    errors = []
    import tempfile, shutil
    run_tmp = tempfile.mkdtemp(prefix="nps_verif_run_")      # scratch files of this run (save/load round trips); removed below
    try:
        with ctx.Pool(jobs, initializer=_worker_init, initargs=(root, 8.0, run_tmp), maxtasksperchild=None) as pool:
            it = pool.imap_unordered(_worker_tagged, [(i, prop, shards[i], tier, seed) for i in order], chunksize=1)
            # sweep mode (mutation / seed sweeps only, never a registered command): stop exploring at the first shard that reports a
            # violation which is not a listed known finding -- the question there is only "detected or not"
            stop_first = bool(os.environ.get("VERIF_STOP_AT_FIRST"))
            known_cl = {k["classifier"] for k in load_known() if k.get("status") == "known" and k.get("property") == prop} if stop_first else set()
            for i, (status, r) in it:
                if status == "ok":
                    results[i] = r
                    if stop_first and any(f.get("classifier") not in known_cl for f in r["failures"]):
                        pool.terminate()
                        break
                else:
                    errors.append(r)
        results = [r for r in results if r is not None]
    finally:
        shutil.rmtree(run_tmp, ignore_errors=True)
    if errors:
        print("HARNESS-ERROR: worker failed:\n" + errors[0], file=out)
        return 2

    tot = collections.Counter()
    features = collections.Counter()
    by_sig = collections.Counter()
    outcomes = set()
    failures, samples = [], []
    extra = collections.Counter()
    state_union = set()
    for r in results:
        state_union.update(r.get("state_set") or ())
        for k in ("evals", "transitions", "traces", "nontriv", "undefined", "states", "fail_total"):
            tot[k] += r[k]
        features.update(r["features"])
        by_sig.update(r["fail_by_sig"])
        extra.update(r["extra"])
        outcomes.update(r["outcomes"])
        failures.extend(r["failures"])
        samples.extend(r["samples"][:1])
    if getattr(mod, "MERGE_STATES", False):
        tot["states"] = len(state_union)      # shards may reach the same state: count the union
    # samples: a handful, which ones depends on the seed
    if not samples:
        samples = [next(iter(mod.cases(shards[0], tier)))] if hasattr(mod, "cases") else [shards[0]]
    k = max(1, len(samples) // 5)
    samples = samples[seed % k::k][:5]

    # vacuity guards (applied below, to runs WITHOUT violations only: a failing case cuts its own exploration short, so a feature that was
    # not reached next to reported violations says nothing about the harness)
    missing = [f for f in getattr(mod, "REQUIRED_FEATURES", []) if features.get(f, 0) == 0]

    # classify
    known = {(k["property"], k["classifier"]): k for k in load_known()}
    kf_cases = collections.Counter()
    kf_small = {}
    viol = []
    for sig, n in by_sig.items():
        kind, cl = sig.split("|", 1)
        ent = known.get((prop, cl))
        if ent is not None and ent.get("status") == "known":
            kf_cases[cl] += n
    for f in failures:
        ent = known.get((prop, f["classifier"])) if f["classifier"] else None
        if ent is not None and ent.get("status") == "known":
            kf_small.setdefault(f["classifier"], f)
        else:
            viol.append(f)
    n_viol = sum(n for sig, n in by_sig.items()
                 if not ((prop, sig.split("|", 1)[1]) in known and known[(prop, sig.split("|", 1)[1])].get("status") == "known"))

    if missing and not viol:
        print(f"HARNESS-ERROR: {prop} vacuity guard: feature(s) never reached: {missing}", file=out)
        return 2

    rc = 0
    reported = []
    if viol:
        per_group = collections.Counter()
        rdir = os.path.join(replay_root(), prop)
        os.makedirs(rdir, exist_ok=True)
        for f in viol:      # shard order = simplest first, so the first of a group is the smallest
            key = (f["kind"], f["classifier"])
            if per_group[key] >= 3 or len(reported) >= MAX_REPORTED:
                continue
            path = write_replay(prop, tier, f, rdir)
            if path in reported:        # the same case reached in two shards
                continue
            per_group[key] += 1
            reported.append(path)
        # confirm each reported violation in a fresh process (replay twice, identical verdict)
        diverged = []
        for path in reported:
            r1 = _replay_subprocess(prop, path, root)
            r2 = _replay_subprocess(prop, path, root)
            if r1 != r2 or r1 != 1:
                diverged.append((path, r1, r2))
        if diverged:
            for path, r1, r2 in diverged:
                print(f"HARNESS-ERROR: replay of {path} diverged from exploration (exit {r1}, {r2})", file=out)
            rc = 2
        else:
            rc = 1
        for path in reported:
            print(f"VIOLATION property={prop} replay={path}", file=out)
    for cl, n in sorted(kf_cases.items()):
        ent = known[(prop, cl)]
        small = kf_small.get(cl)
        print(f"KNOWN-FINDING: property={prop} {ent['what']} ({n} cases; smallest: "
              f"{jdump(small['case'])[:300] if small else '-'})", file=out)

    wall = time.time() - t0
    ev = {
        "property_id": prop, "tier": tier, "seed": seed, "level": "model_checking",
        "coverage": {
            "states": tot["states"], "transitions": tot["transitions"],
            "traces_validated_against_impl": tot["traces"],
            "samples": samples,
            "evaluations": tot["evals"], "distinct_nontrivial": tot["nontriv"],
            "rule": mod.RULE, "exhaustive": True,
            "bounds": mod.BOUNDS.get(tier, ""),
            "shards": len(shards), "jobs": jobs,
            "features": dict(sorted(features.items())),
            "distinct_outcomes": len(outcomes),
            "undefined_skipped": tot["undefined"],
            "known_finding_cases": dict(kf_cases),
            "violating_cases": n_viol,
            "violation_signatures": {s: n for s, n in by_sig.items()},
            "extra": dict(sorted(extra.items())),
            "nps_root": root,
        },
        "assumptions": list(mod.ASSUMPTIONS),
        "wall_s": round(wall, 2),
        "violations": n_viol,
    }
    os.makedirs(os.path.join(VERIF, "evidence"), exist_ok=True)
    evpath = os.environ.get("VERIF_EVIDENCE_DIR", os.path.join(VERIF, "evidence"))
    os.makedirs(evpath, exist_ok=True)
    with open(os.path.join(evpath, f"{prop}.json"), "w") as fh:
        json.dump(ev, fh, indent=1, default=_jdefault)
        fh.write("\n")
    print(f"{prop} {tier}: cases={tot['evals']} states={tot['states']} transitions={tot['transitions']} "
          f"outcomes={len(outcomes)} nontrivial={tot['nontriv']} undefined={tot['undefined']} "
          f"known-finding-cases={sum(kf_cases.values())} violations={n_viol} wall={wall:.1f}s", file=out)
    return rc


def _worker_tagged(args):
    i = args[0]
    return i, _worker(args[1:])


def write_replay(prop, tier, f, rdir):
    d = digest([f["case"], f["kind"]])
    path = os.path.join(rdir, f"{d}.json")
    with open(path, "w") as fh:
        json.dump({"property": prop, "tier": tier, "case": f["case"], "kind": f["kind"],
                   "expected": f["expected"], "observed": f["observed"],
                   "classifier": f["classifier"], "note": f["note"],
                   "shard": f.get("shard"), "index": f.get("index")}, fh, indent=1, default=_jdefault)
        fh.write("\n")
    with open(os.path.join(rdir, f"{d}.py"), "w") as fh:
        fh.write(REPLAY_PY.format(verif=VERIF, prop=prop, path=path))
    return path


REPLAY_PY = '''#!/venv/bin/python
"""Replays one recorded violation of {prop} without the explorer (no pool, no enumeration):
builds the objects of the recorded case, runs it once through the property's oracle and asserts."""
import sys, json
sys.path.insert(0, {verif!r})
from mc.explore import replay_case
rc, fails = replay_case({prop!r}, {path!r})
for f in fails:
    print(json.dumps(f, default=str)[:2000])
assert rc == 0, "property {prop} violated by the recorded case"
print("ok: recorded case no longer violates {prop}")
'''


def replay_case(prop, path):
    """re-run one recorded case on fresh objects.  If it does not violate on its own but was recorded inside a Mode-I shard,
    re-run the cases of that shard up to and including it in this (fresh) process: a failure that needs process-global state
    left behind by earlier cases (a module-level cache, a class-level flag) is reproduced that way, deterministically."""
    bind_repo()
    with open(path) as fh:
        rec = json.load(fh)
    mod = load_check(prop)
    known = {(k["property"], k["classifier"]): k for k in load_known()}

    def bad_of(acc):
        return [f for f in acc.failures
                if not (f["classifier"] and (prop, f["classifier"]) in known
                        and known[(prop, f["classifier"])].get("status") == "known")]
    acc = Acc(prop, 0)
    signal.signal(_TIMER_SIG, _on_alarm)
    try:
        if rec.get("shard") is not None and hasattr(mod, "cases") and not hasattr(mod, "run_shard"):
            # Mode I: replay the shard's cases up to and including the recorded one, in enumeration order (each on fresh objects).
            # A case that fails on its own fails here too; one that needs process-global state left by earlier cases needs them.
            target = jdump(rec["case"])
            for case in mod.cases(rec["shard"], rec.get("tier", "quick")):
                hit = jdump(case) == target
                sub = acc if hit else Acc(prop, 0)
                sub.begin(case)
                guarded_check(mod, case, sub)
                if hit:
                    break
        else:
            acc.begin(rec["case"])
            guarded_check(mod, rec["case"], acc)
    finally:
        signal.setitimer(_TIMER, 0)
    return (1 if bad_of(acc) else 0), acc.failures


def _replay_subprocess(prop, path, root):
    env = dict(os.environ, NPS_ROOT=root, PYTHONHASHSEED="0")
    p = subprocess.run([sys.executable, os.path.join(VERIF, "check"), prop, "--replay", path, "--quiet"],
                       env=env, capture_output=True, text=True, timeout=600)
    return p.returncode
