"""Observation normaliser: implementation objects -> plain, hashable, comparable Python data.

Values are compared as Python numbers (so 3 == 3.0 == np.int8(3), True == 1; NaN is the token
'nan'; -0.0 == 0.0).  Element dtype is carried in a separate slot and is only filled in when the
caller asks for it (dt=True) -- i.e. only for properties whose statement mentions dtype.
Container kinds are reduced to what the statements distinguish: ragged / array / scalar."""
import math
import numpy as _np


def pyval(v):
    if isinstance(v, (bool, _np.bool_)):
        return bool(v)
    if isinstance(v, (int, _np.integer)):
        return int(v)
    if isinstance(v, (float, _np.floating)):
        f = float(v)
        if math.isnan(f):
            return "nan"
        return f
    if isinstance(v, (complex, _np.complexfloating)):
        return ("cx", complex(v).real, complex(v).imag)
    if v is None:
        return None
    return ("?", repr(v))


def _tup(lst):
    if isinstance(lst, list):
        return tuple(_tup(x) for x in lst)
    if isinstance(lst, float) and lst != lst:
        return "nan"
    return lst


def arr(a, dt=False):
    a = _np.asarray(a)
    return ("A", str(a.dtype) if dt else None, tuple(a.shape), _tup(a.tolist()))


def is_ragged(x):
    return hasattr(x, "_shape") and hasattr(x, "ravel") and hasattr(x, "tolist") and type(x).__name__ == "RaggedArray"


def norm(x, dt=False):
    if is_ragged(x):
        return ("R", str(x.dtype) if dt else None, tuple(_tup(r.tolist()) for r in x))
    if isinstance(x, _np.ndarray):
        if x.ndim == 0:
            return ("S", str(x.dtype) if dt else None, pyval(x[()]))
        return arr(x, dt)
    if isinstance(x, _np.generic):
        return ("S", str(x.dtype) if dt else None, pyval(x))
    if isinstance(x, (bool, int, float)):
        return ("S", (type(x).__name__ if dt else None), pyval(x))
    if isinstance(x, (tuple, list)):
        return ("T", tuple(norm(i, dt) for i in x))
    if x is None:
        return ("N",)
    if x is NotImplemented:
        return ("NI",)
    if isinstance(x, str):
        return ("str", x)
    return ("O", type(x).__name__)


def refused(e):
    return ("X", type(e).__name__)


def is_refused(o):
    return isinstance(o, tuple) and len(o) == 2 and o[0] == "X"


def call(f, *a, **k):
    """run f; an exception becomes a ('X', type) observation"""
    try:
        return f(*a, **k)
    except Exception as e:  # noqa: BLE001  (Hang is a BaseException and passes through)
        return Refused(e)


class Refused:
    def __init__(self, e):
        self.e = e
        self.name = type(e).__name__

    def __repr__(self):
        return f"Refused({self.name}: {str(self.e)[:120]})"


def nobs(x, dt=False):
    """normalise a value that may be a Refused marker"""
    if isinstance(x, Refused):
        return ("X", x.name)
    return norm(x, dt)


TAP = None      # C19 sets this to a list: the element dtypes of every observed result are recorded on the side


def dtypes_of(x):
    """the element-dtype skeleton of a result (no values): ragged results only -- a plain ndarray may be index-valued
    (lengths, offsets, coordinates), and those legitimately follow the configured index width"""
    if is_ragged(x):
        return ("R", str(x.dtype))
    if isinstance(x, (tuple, list)):
        return tuple(dtypes_of(i) for i in x)
    return None


def tap_array(x):
    """explicit side record for a result that is NOT geometry although it is a plain ndarray (coordinates returned by nonzero, positions
    returned by argmax / argmin): C19 compares its element dtype across the two configurations"""
    if TAP is not None:
        if isinstance(x, (tuple, list)):
            TAP.append(tuple(("A", str(_np.asarray(i).dtype)) for i in x))
        else:
            TAP.append(("A", str(_np.asarray(x).dtype)))
    return x


def observe(f, dt=False):
    """run f and normalise its result; an exception anywhere -- in the call or while the result is
    read back (lazy views fail late) -- is the observation ('X', type)"""
    try:
        r = f()
        if TAP is not None:
            TAP.append(dtypes_of(r))
        return norm(r, dt)
    except Exception as e:  # noqa: BLE001
        return ("X", type(e).__name__)


def attempt(f):
    """run f (which returns already-plain data); an exception is the observation ('X', type)"""
    try:
        return f()
    except Exception as e:  # noqa: BLE001
        return ("X", type(e).__name__)
