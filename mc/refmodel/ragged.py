"""Reference model of a ragged array: a Python list of rows.  Indexing is done on *coordinates*
(r, c) so the same function serves reads (map coordinates to values) and writes (assign at the
coordinates).  Ground truth for clamping and negative steps is Python's own list slicing."""
import numpy as np


class Refuse(Exception):
    """the model says: this index expression must be refused"""


def _is_int(x):
    return isinstance(x, (int, np.integer)) and not isinstance(x, (bool, np.bool_)) or \
        (isinstance(x, np.ndarray) and x.ndim == 0 and x.dtype.kind in "iu")


def select_rows(n, sel):
    """-> ('row', r) | ('rows', [r, ...]) | ('alias', [0..n-1])"""
    if sel is Ellipsis or (isinstance(sel, tuple) and len(sel) == 0):
        return "alias", list(range(n))
    if _is_int(sel):
        i = int(sel)
        if not -n <= i < n:
            raise Refuse(f"row {i} of {n}")
        return "row", i % n if n else 0
    if isinstance(sel, slice):
        return "rows", list(range(n))[sel]
    if isinstance(sel, np.ndarray) and sel.dtype == bool:
        if sel.ndim != 1 or len(sel) != n:
            raise Refuse("mask length")
        return "rows", [i for i in range(n) if sel[i]]
    if isinstance(sel, list) and len(sel) > 0 and all(isinstance(b, (bool, np.bool_)) for b in sel):
        if len(sel) != n:                      # a plain list of bools is a mask, as in numpy
            raise Refuse("mask length")
        return "rows", [i for i in range(n) if sel[i]]
    if isinstance(sel, (list, np.ndarray)):
        out = []
        for i in sel:
            i = int(i)
            if not -n <= i < n:
                raise Refuse(f"row {i} of {n}")
            out.append(i % n)
        return "rows", out
    raise TypeError(f"model: unsupported row selector {sel!r}")


def index_coords(lens, idx):
    """-> (kind, coords, alias)
    kind 'ragged': list of lists of (r,c);  'flat': list of (r,c);  'cell': one (r,c)
    alias: True when the expression is one of the whole-array alias forms"""
    n = len(lens)
    if isinstance(idx, tuple) and len(idx) == 1:
        idx = idx[0]
    if isinstance(idx, tuple) and len(idx) > 2:
        idx = tuple(i for i in idx if i is not Ellipsis)
        if len(idx) != 2:
            raise Refuse("too many indices")
    if isinstance(idx, tuple) and len(idx) == 2:
        rs, cs = idx
        if rs is Ellipsis:
            rs = slice(None)
        if cs is Ellipsis:
            cs = slice(None)
        kind, rows = select_rows(n, rs)
        if kind == "row":
            r = rows
            if _is_int(cs):
                c = int(cs)
                if not -lens[r] <= c < lens[r]:
                    raise Refuse(f"col {c} of row with {lens[r]}")
                return "cell", (r, c % lens[r]), False
            return "flat", [(r, c) for c in list(range(lens[r]))[cs]], False
        if _is_int(cs):
            c = int(cs)
            out = []
            for r in rows:
                if not -lens[r] <= c < lens[r]:
                    raise Refuse(f"col {c} of row with {lens[r]}")
                out.append((r, c % lens[r]))
            return "flat", out, False
        return "ragged", [[(r, c) for c in list(range(lens[r]))[cs]] for r in rows], False
    kind, rows = select_rows(n, idx)
    if kind == "row":
        return "flat", [(rows, c) for c in range(lens[rows])], False
    return "ragged", [[(r, c) for c in range(lens[r])] for r in rows], kind == "alias"


def read(rows, kind, coords):
    """-> plain observation in the format of norm(): values only"""
    if kind == "cell":
        return ("S", None, rows[coords[0]][coords[1]])
    if kind == "flat":
        return ("A", None, (len(coords),), tuple(rows[r][c] for r, c in coords))
    return ("R", None, tuple(tuple(rows[r][c] for r, c in row) for row in coords))


def features_of(lens, idx, kind, coords):
    """coverage features of one index case (deterministic functions of the case)"""
    f = []
    if kind == "ragged":
        if any(len(r) == 0 for r in coords):
            f.append("result_has_empty_row")
        if sum(1 for r in coords if r) > 1:
            f.append("result_spans_rows")
        if not coords:
            f.append("result_zero_rows")
    return f
