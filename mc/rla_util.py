"""helpers for the run-length checks: decoding through the public API, canonical-form invariant"""
import numpy as np
from mc.norm import _tup, pyval


def canon_violation(r, joined):
    """None, or the name of the violated invariant (public properties only: starts / ends / values / len)"""
    st = np.asarray(r.starts)
    en = np.asarray(r.ends)
    v = np.asarray(r.values)
    n = len(r)
    if len(st) != len(v) or len(en) != len(v):
        return "boundaries-and-values-differ-in-number"
    if len(v) == 0:
        return None if n == 0 else "no-run-but-positive-length"
    if st[0] != 0:
        return "first-run-does-not-start-at-0"
    if en[-1] != n:
        return "last-run-does-not-end-at-length"
    if not np.array_equal(st[1:], en[:-1]):
        return "runs-not-contiguous"
    if not np.all(en > st):
        return "empty-run"
    if joined and len(v) > 1 and np.any(v[1:] == v[:-1]):
        return "adjacent-runs-with-equal-values"
    return None


def dense_obs(a, dt=True):
    a = np.asarray(a)
    return ("A", str(a.dtype) if dt else None, tuple(a.shape), _tup(a.tolist()))


def decode(x):
    """RunLengthArray -> dense ndarray via the public to_array()"""
    return np.asarray(x.to_array())


def is_rla(x):
    return type(x).__name__ == "RunLengthArray"


def all_arrays(alphabet, lmax, dtype, lmin=1):
    import itertools
    for L in range(lmin, lmax + 1):
        for t in itertools.product(range(len(alphabet)), repeat=L):
            yield [alphabet[i] for i in t]


ALPH = {
    "bool": [False, True], "int8": [-128, 0, 127], "int64": [-2 ** 63, -2 ** 63 + 1, 5], "uint8": [0, 255, 7], "uint64": [0, 2 ** 64 - 1, 2 ** 64 - 2],
    "float16": [0.0, 1.0, float("nan")], "float32": [0.0, -0.0, 1.5, float("nan")], "float64": [0.0, float("inf"), -2.5, float("nan")],
}
