#!/venv/bin/python
"""tools/add_finding.py <status> <property> <classifier> <commit|-> <what...>  -- append to known_findings.json (dev-time only)"""
import sys, json, os
p = os.path.join(os.path.dirname(os.path.dirname(os.path.abspath(__file__))), "known_findings.json")
d = json.load(open(p))
status, prop, cl, commit = sys.argv[1:5]
what = " ".join(sys.argv[5:])
if status == "fixed":
    what = f"fixed: property={prop} {commit} {what}"
d["findings"] = [f for f in d["findings"] if not (f["property"] == prop and f["classifier"] == cl)]
d["findings"].append({"status": status, "property": prop, "classifier": cl, "commit": None if commit == "-" else commit, "what": what})
json.dump(d, open(p, "w"), indent=1)
print("ok", len(d["findings"]))
