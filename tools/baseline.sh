#!/bin/sh
# runs the pinned suite of the tree under ${1:-/repo} with the verification guard OFF; prints the summary line
ROOT=${1:-/repo}
cd "$ROOT" && env -u NPSTRUCTURES_VERIF /venv/bin/python -m pytest -q -p no:cacheprovider --timeout=900 --continue-on-collection-errors -x -q 2>&1 | tail -3
