#!/bin/sh
# copies the seed directories a vp run actually (re)produced -- the ids on its "confirmed=" log lines -- back into /verif/seeded
for r in "$@"; do
  for id in $(grep -o '^[A-Za-z0-9_]* confirmed=' /root/.vp/runs/$r/log | cut -d' ' -f1); do
    rsync -a /root/.vp/runs/$r/verif/seeded/$id/ /verif/seeded/$id/
  done
done
