#!/venv/bin/python
"""Regenerates /verif/MANIFEST.json from the check modules that exist (mc/checks/cNN.py)."""
import os, sys, json, glob, importlib
HERE = os.path.dirname(os.path.dirname(os.path.abspath(__file__)))
sys.path.insert(0, HERE)
props = [json.loads(l) for l in open(os.path.join(HERE, "properties.jsonl"))]
have = {os.path.basename(p)[:-3].upper() for p in glob.glob(os.path.join(HERE, "mc", "checks", "c[0-9]*.py"))}
checks, na = [], []
for p in props:
    pid = p["id"]
    if pid not in have:
        na.append({"property_id": pid, "reason": "check not built yet (planned: DESIGN.md section 4)"})
        continue
    mod = importlib.import_module(f"mc.checks.{pid.lower()}")
    checks.append({
        "property_id": pid,
        "quick_cmd": f"./check {pid} --tier quick",
        "thorough_cmd": f"./check {pid} --tier thorough",
        "evidence_file": f"/verif/evidence/{pid}.json",
        "replay_cmd_template": f"./check {pid} --replay {{path}}",
        "engine": "mc-explorer",
        "level_claimed": {
            "category": "model_checking",
            "text": getattr(mod, "LEVEL_TEXT", "Bounded exhaustive exploration of the real implementation: every case of the stated finite domain "
                    "is executed on fresh real objects and compared with a reference model; nothing is sampled. Bounds: "
                    + mod.BOUNDS["quick"]),
            "design_ref": f"DESIGN.md section 4, {pid}",
        },
        "level_note": "; ".join(mod.ASSUMPTIONS),
        "technique": getattr(mod, "TECHNIQUE", "explicit-state bounded exhaustive enumeration on the real code vs reference model"),
    })
man = {
    "version": 1,
    "setup_cmd": "./check --selftest-import",
    "hooks": {
        "guard": "NPSTRUCTURES_VERIF",
        "enable": "no source hooks are needed: checks import npstructures from /repo's working tree (pure Python, nothing to build) and read hidden state through name-mangled attributes from outside; the variable is set by the checks but nothing in /repo reads it",
        "baseline_off_cmd": "cd /repo && env -u NPSTRUCTURES_VERIF /venv/bin/python -m pytest -ra -q -p no:cacheprovider --timeout=900 --continue-on-collection-errors",
        "source_commits": [],
        "add_only": True,
    },
    "engines": [{"name": "mc-explorer", "path": "/verif/mc/explore.py", "serves_properties": sorted(have),
                 "kind_free_text": "hand-written explicit-state / small-scope explorer in Python driving the real npstructures code (Mode I input-space enumeration, Mode II BFS over operation histories with state hashing, Mode III configuration differential)"}],
    "checks": checks,
    "not_applicable": na,
    "notes": "All checks: exit 0 held (possibly KNOWN-FINDING lines), 1 violation (VIOLATION lines + replay files under /verif/replays), 2 harness error. NPS_ROOT=<dir> points the same checks at a scratch copy. Fix commits in /repo are listed in /verif/known_findings.json.",
}
# (an empty list is kept on purpose: every property of properties.jsonl is claimed)
json.dump(man, open(os.path.join(HERE, "MANIFEST.json"), "w"), indent=1)
print(f"MANIFEST.json: {len(checks)} checks, {len(na)} not yet claimed")
