#!/venv/bin/python
"""tools/gen_tables.py  -- rewrites the quick-tier table of DESIGN.md section 11 (between the QUICK-TABLE markers) from /verif/evidence/*.json"""
import json, os, re, sys
V = os.path.dirname(os.path.dirname(os.path.abspath(__file__)))
sys.path.insert(0, V)
MODE = {"C06": "II", "C10": "II", "C11": "I+II", "C12": "II", "C19": "III"}


def si(n):
    return f"{n / 1e6:.2f} M" if n >= 1e6 else (f"{n / 1e3:.0f} k" if n >= 1e4 else str(n))


rows = ["| check | mode | quick tier as built (bounds string of the check) | cases / transitions / distinct states | wall |", "|---|---|---|---|---|"]
for i in range(1, 20):
    p = f"C{i:02d}"
    ev = json.load(open(os.path.join(V, "evidence", p + ".json")))
    c = ev["coverage"]
    assert ev["tier"] == "quick", p
    rows.append(f"| {p} | {MODE.get(p, 'I')} | {c['bounds']} | {si(c['evaluations'])} / {si(c['transitions'])} / {si(c['states'])} | {ev['wall_s']:.0f} s |")
d = open(os.path.join(V, "DESIGN.md")).read()
a, b = "<!-- QUICK-TABLE-BEGIN -->", "<!-- QUICK-TABLE-END -->"
assert a in d and b in d
d = d[:d.index(a) + len(a)] + "\n" + "\n".join(rows) + "\n" + d[d.index(b):]
open(os.path.join(V, "DESIGN.md"), "w").write(d)
print("quick table rewritten,", len(rows) - 2, "rows")
