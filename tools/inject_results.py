#!/venv/bin/python
"""replaces the block between the RESULTS markers of DESIGN.md section 8.3 with the current output of tools/report.py"""
import os, subprocess, re
V = os.path.dirname(os.path.dirname(os.path.abspath(__file__)))
out = subprocess.run([os.path.join(V, "tools", "report.py")], capture_output=True, text=True, check=True).stdout
p = os.path.join(V, "DESIGN.md")
s = open(p).read()
block = "<!-- RESULTS-BEGIN -->\n" + out + "\n<!-- RESULTS-END -->"
if "RESULTS_PLACEHOLDER" in s:
    s = s.replace("RESULTS_PLACEHOLDER", block)
else:
    s = re.sub(r"<!-- RESULTS-BEGIN -->.*?<!-- RESULTS-END -->", lambda m: block, s, flags=re.S)
open(p, "w").write(s)
print("injected", len(out.splitlines()), "lines")
