#!/venv/bin/python
"""tools/merge_sweep.py <vp run number>  -- copies the "final_sweep" entries a resweep run wrote into its snapshot back into /verif/seeded/*/meta.json"""
import sys, os, json, glob
run = sys.argv[1]
n = 0
for mp in sorted(glob.glob(f"/root/.vp/runs/{run}/verif/seeded/*/meta.json")):
    sid = os.path.basename(os.path.dirname(mp))
    src = json.load(open(mp))
    dst_p = f"/verif/seeded/{sid}/meta.json"
    if "final_sweep" not in src or not os.path.exists(dst_p):
        continue
    dst = json.load(open(dst_p))
    dst["final_sweep"] = src["final_sweep"]
    json.dump(dst, open(dst_p, "w"), indent=1)
    n += 1
print("merged", n)
