#!/venv/bin/python
"""prints the markdown tables of DESIGN.md section 8 from seeded/*/meta.json and mutants/*/results.json"""
import os, json, glob, collections, sys
V = os.path.dirname(os.path.dirname(os.path.abspath(__file__)))
print("#### Seeded changes (written independently by sub-agents)\n")
print("| id | breaks | what it needs to manifest | detected at intake by (quick tier, checks as they stood) | final sweep (checks as committed) |")
print("|---|---|---|---|---|")
tot = collections.Counter()
for p in sorted(glob.glob(os.path.join(V, "seeded", "*", "meta.json"))):
    m = json.load(open(p))
    if not m.get("confirmed"):
        print(f"| {m.get('id')} | {m.get('breaks_property')} | NOT CONFIRMED: {'; '.join(m.get('confirmation_log', []))[:150]} | | |")
        continue
    det = m.get("detected_by", [])
    need = (m.get("needs_to_manifest") or "").replace("|", "/").replace("\n", " ")
    fs = m.get("final_sweep") or {}
    hit = [k for k, v in fs.items() if k != "demo" and v == 1]
    if hit:
        final = ", ".join(hit)
        tot["detected"] += 1
    elif fs.get("demo") == "passes":
        final = "neutralised (its demonstration passes on the current tree)"
        tot["neutralised"] += 1
    elif fs:
        final = "**NOT DETECTED** " + json.dumps(fs)
        tot["undetected"] += 1
    else:
        final = "(not swept)"
        tot["not swept"] += 1
    tot["intake-detected" if det else "intake-missed"] += 1
    print(f"| {m['id']} | {m['breaks_property']} | {need[:170]} | {', '.join(det) if det else '**none**'} | {final} |")
print("\nTotals: " + ", ".join(f"{k}: {v}" for k, v in sorted(tot.items())) + "\n")
for d in ("hand", "ast"):
    rf = os.path.join(V, "mutants", d, "results.json")
    if not os.path.exists(rf):
        continue
    r = json.load(open(rf))
    c = collections.Counter(v["status"] for v in r.values())
    print(f"\n#### mutants/{d}: {len(r)} run -- " + ", ".join(f"{k}: {v}" for k, v in sorted(c.items())) + "\n")
    if d == "hand":
        print("| mutant | status | killed by | checks silent |")
        print("|---|---|---|---|")
        for k, v in sorted(r.items()):
            ch = v.get("checks", {})
            print(f"| {k} | {v['status']} | {', '.join(v.get('killed_by', []))} | {', '.join(p for p, x in ch.items() if x['rc'] == 0)} |")
    else:
        idx = {i["name"]: i for i in json.load(open(os.path.join(V, "mutants", d, "index.json")))}
        per = collections.defaultdict(collections.Counter)
        for k, v in r.items():
            per[idx.get(k, {}).get("file", "?")][v["status"]] += 1
        print("| file | run | killed by suite | killed by checks | survived |")
        print("|---|---|---|---|---|")
        for f, cc in sorted(per.items()):
            print(f"| {f} | {sum(cc.values())} | {cc['killed-by-suite']} | {cc['killed']} | {cc['survived']} |")
        surv = [k for k, v in r.items() if v["status"] == "survived"]
        print("\nsurvivors:", ", ".join(sorted(surv)[:400]))
