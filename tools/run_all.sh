#!/bin/sh
# runs every registered quick (or $1=thorough) check once and prints a one-line summary each
TIER=${1:-quick}
cd "$(dirname "$0")/.."
for p in C01 C02 C03 C04 C05 C06 C07 C08 C09 C10 C11 C12 C13 C14 C15 C16 C17 C18 C19; do
  s=$(date +%s)
  out=$(./check $p --tier $TIER 2>&1); rc=$?
  e=$(date +%s)
  echo "$p rc=$rc $((e-s))s $(echo "$out" | grep -c VIOLATION) violations, $(echo "$out" | grep -c KNOWN-FINDING) known | $(echo "$out" | tail -1 | cut -c1-160)"
done
