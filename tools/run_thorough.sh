#!/bin/sh
# runs every thorough check once with evidence to a scratch dir (for timing / smoke-testing the thorough tier)
cd "$(dirname "$0")/.."
for p in ${PROPS:-C01 C02 C03 C04 C05 C06 C07 C08 C09 C10 C11 C12 C13 C14 C15 C16 C17 C18 C19}; do
  s=$(date +%s)
  out=$(VERIF_EVIDENCE_DIR=${TMPDIR:-/tmp}/nps_thorough_ev ./check $p --tier thorough --jobs ${JOBS:-8} 2>&1); rc=$?
  e=$(date +%s)
  echo "$p rc=$rc $((e-s))s $(echo "$out" | grep -c '^VIOLATION') violations | $(echo "$out" | tail -1 | cut -c1-200)"
done
