#!/bin/sh
# determinism / silence self-test: every quick check under several VERIF_SEED values, each from a fresh process;
# the verdict and the counts (cases, states, transitions) must be identical for all seeds and no VIOLATION may appear
cd "$(dirname "$0")/.."
rc=0
for p in ${PROPS:-C01 C02 C03 C04 C05 C06 C07 C08 C09 C10 C11 C12 C13 C14 C15 C16 C17 C18 C19}; do
  ref=""
  for s in ${SEEDS:-0 1 7}; do
    out=$(VERIF_SEED=$s VERIF_EVIDENCE_DIR=${TMPDIR:-/tmp}/nps_selftest_ev ./check $p --tier quick 2>&1); r=$?
    line=$(echo "$out" | tail -1 | sed 's/ wall=.*//')
    v=$(echo "$out" | grep -c '^VIOLATION')
    [ -z "$ref" ] && ref="$line"
    if [ $r -ne 0 ] || [ $v -ne 0 ] || [ "$line" != "$ref" ]; then echo "SELFTEST-FAIL $p seed=$s rc=$r violations=$v: $line (reference: $ref)"; rc=1; fi
  done
  echo "$p ok: $ref"
done
rm -rf ${TMPDIR:-/tmp}/nps_selftest_ev
exit $rc
